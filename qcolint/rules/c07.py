"""C07 -- acquisition indices enumerate measurements exactly, in order.

A1  AcquisitionRegistry.get_registry_at as a loop summary (two counters from 0 over the whole listing; return the CURRENT
    counters at the match; qubit counter +1 iff same qubit, circuit counter +1 for every acquisition; miss -> default).
A2  accessor mapping (acquisition_index <-> qubit level, circuit_level_acquisition_index <-> circuit level).
A3  both get_acquisition_indices variants: whole listing in order, filter by interface and by qubit / (qubit and tag).
A4  identity of a measurement: the identifier includes a unique counter and is built from the operation's own qubit and tag.
A5  wherever a DeclarativeCircuit's structure is (re)bound, its acquisition registry refers to that structure.
A6  registry re-targeting on copy (= C05.K6) and routing of sub-circuits through the copying path (= C02.L7).
"""
from __future__ import annotations

import ast
from fractions import Fraction
from typing import Dict, List, Optional, Tuple

from ..model import is_helper_name as _is_helper_name
from ..model import AnalysisError, Model
from ..paths import Path, PathEnumerator, find_calls
from ..report import Report
from ..sym import (FALSE, NONE, TRUE, Evaluator, Frame, Term, Unsupported, atoms_of, lin, number, show, subst, subterms, sym, t_add, t_and, t_cmp,
                   t_not, bool_value)
from .common import call_args, effect_calls, is_call_of, lifted_to_callers, loop_of, share_rule, strip_identity_wrappers


def check(model: Model, rep: Report, tier: str):
    with rep.isolated():
        a8(model, rep)
    with rep.isolated():
        a1(model, rep)
    with rep.isolated():
        a2(model, rep)
    with rep.isolated():
        a3(model, rep)
    with rep.isolated():
        a4(model, rep)
    with rep.isolated():
        a5(model, rep, "C07.A5")
    with rep.isolated():
        a9(model, rep, "C07.A9")
    from .c05 import k10
    with rep.isolated():
        k10(model, rep, "C07.A10")
    with rep.isolated():
        a11(model, rep, "C07.A11")
    from .c08 import s2
    from .c10 import t2 as _t2
    with rep.isolated():
        share_rule(rep, model, _t2, "C07.A15", "per qubit the acquisition indices of library circuits increase with the measurement start time: the library builders schedule every "
                   "later measurement of a qubit FOLLOWED_BY what precedes it on that qubit (= C10.T2), never JOINED to an earlier measurement")
    from .c06 import u1 as _u1
    with rep.isolated():
        share_rule(rep, model, _u1, "C07.A14", "after unrolling, the measurements of a block repeated n times (at any nesting depth) are listed n times: apply_modifiers_to_self "
                   "reaches every repeated block, also the fresh copies that unrolling an outer block creates (= C06.U1); a block left rolled is counted once while the "
                   "record holds n entries")
    with rep.isolated():
        share_rule(rep, model, s2, "C07.A12", "circuit-level index i is position i of the exported Stim measurement record: the exporter walks the nodes in listing order, the same "
                   "order the registry counts in (= C08.S2)")
    from .c05 import check_registry_copy
    rep.rule("C07.A6", "copies re-target their acquisition registry through the lookup (= C05.K6) and every sub-circuit handed to add() takes the copying path (= C02.L7)")
    with rep.isolated():
        check_registry_copy(model, rep, "C07.A6")
    from .c02 import l7
    with rep.isolated():
        share_rule(rep, model, l7, "C07.A6", rep.rules_text["C07.A6"])
    from .c05 import _k1_k2
    with rep.isolated():
        share_rule(rep, model, _k1_k2, "C07.A6", rep.rules_text["C07.A6"], only_rules=None)
    rep.rules_text["C07.A6"] = ("copies re-target their acquisition registry through the lookup (= C05.K6), keep tag and strategy (= C05.K1) and every sub-circuit "
                                "handed to add() takes the copying path (= C02.L7)")


def a11(model: Model, rep: Report, rule: str):
    """Library constructors hand the component builders the registry of the circuit they return."""
    rep.rule(rule, "in every library circuit constructor the `registry=` handed to a component builder is <the returned circuit>.acquisition_registry: measurements created "
                   "against the registry of an inner block keep indexing that block when they are added next to it (index -1 at circuit level)")
    from ..alias import _bindings
    n = 0
    for f in model.all_functions():
        rel = f.module.relpath.replace("\\", "/")
        if "/library/" not in rel or not rel.endswith("circuit_constructors.py") or f.cls is not None:
            continue
        if any(p.arg == "registry" for p in f.params):
            continue
        returned = {r.value.id for r in ast.walk(f.node) if isinstance(r, ast.Return) and isinstance(r.value, ast.Name)}
        if len(returned) != 1:
            continue
        R = next(iter(returned))
        for c in ast.walk(f.node):
            if not isinstance(c, ast.Call):
                continue
            for k in c.keywords:
                if k.arg != "registry":
                    continue
                e = k.value
                hops = 0
                while isinstance(e, ast.Name) and hops < 3:
                    bs = _bindings(f.node, e.id)
                    if len(bs) != 1 or bs[0] is None:
                        break
                    e = bs[0]
                    hops += 1
                if not (isinstance(e, ast.Attribute) and e.attr == "acquisition_registry" and isinstance(e.value, ast.Name)):
                    continue            # not a registry taken from a local circuit: nothing to compare
                n += 1
                src = e.value.id
                # the circuit the built component is added to: X.add(<this call>)
                added_to = None
                for a_ in ast.walk(f.node):
                    if isinstance(a_, ast.Call) and isinstance(a_.func, ast.Attribute) and a_.func.attr == "add" and isinstance(a_.func.value, ast.Name) and any(x is c for x in a_.args):
                        added_to = a_.func.value.id
                rep.check(src == R or (added_to is not None and src == added_to), rule, f"{f.name}[registry of {ast.unparse(c.func)}]", f"{f.module.relpath}:{c.lineno}", found=f"{src}.acquisition_registry (the function returns {R})",
                          required=f"{R}.acquisition_registry (or the registry of the circuit the component is added to)",
                          what=f"{ast.unparse(c.func)} creates its measurements against the registry of `{src}`, but they are added to `{added_to or R}`: their registry is never "
                          f"re-targeted (it is only when `{src}` itself is nested), so their circuit-level index is -1", detail=f"registry:{ast.unparse(c.func)}")
    rep.floor(f"{rule} registry arguments in library constructors", n, 4)


def a9(model: Model, rep: Report, rule: str):
    """Measurements index the structure OBJECT they were created against: unrolling / flattening through the front end must keep that object."""
    rep.rule(rule, "DeclarativeCircuit.apply_modifiers / flatten hand back a circuit whose structure is the SAME object the measurements' registries index: self itself, or "
                   "a circuit whose _structure is self._structure / the result of an in-place method of it that returns its receiver -- a rebuilt structure holding the old "
                   "operations leaves their registries on the discarded nesting")
    from .common import returns_receiver
    D = model.cls("DeclarativeCircuit")
    K = model.cls("CircuitCompositeOperation")
    for name in ("apply_modifiers", "flatten"):
        f = D.resolve(name)
        if f is None:
            raise AnalysisError(f"DeclarativeCircuit.{name} vanished")
        ev = Evaluator(model, inline_methods=False)
        ps = PathEnumerator(ev).function_paths(f, self_cls=D)
        s = sym(f.self_name)
        live = ("attr", s, "_structure")
        n = 0
        for p in ps:
            if p.exit != "return":
                continue
            n += 1
            v = p.value
            found = show(v) if v is not None else "None"
            ok = False
            if v == s:
                # in place: any rebinding of self._structure must keep the object
                sts = [e.term for e in p.events if e.kind == "store" and e.term[2] == "_structure" and e.term[1] == s]
                ok = all(returns_receiver(model, ev, t[3], live, cls=K) for t in sts)
                found = "self; " + ("; ".join(show(t[3]) for t in sts) or "structure not rebound")
            elif v is not None and v[0] == "new" and v[1] == "DeclarativeCircuit":
                st = dict(v[2]).get("_structure")
                ok = st is not None and returns_receiver(model, ev, st, live, cls=K)
                found = f"new circuit with _structure = {show(st) if st is not None else 'a fresh structure'}"
            rep.check(ok, rule, f"DeclarativeCircuit.{name}[same structure object]", f.loc, found=found[:300], required="the structure object of self (changed in place)",
                      what=f"{name}() returns a circuit built on another structure object than the one the measurements' acquisition registries index: their indices are computed "
                           "on the discarded nesting (wrong order or -1)", detail=f"same-object:{name}")
        rep.floor(f"return paths of DeclarativeCircuit.{name}", n, 1)


# ---------------------------------------------------------------------------------------------
def a8(model: Model, rep: Report):
    """A8: an index is computed from the listing as it is NOW: the registry keeps nothing between two questions."""
    rep.rule("C07.A8", "the index lookup keeps no state between calls: AcquisitionRegistry.get_registry_at (with the private helpers it runs) and the two index accessors store "
                       "nothing on the registry / the operation -- a table built at the first question goes stale when the listing grows, is unrolled or is nested afterwards")
    R = model.cls("AcquisitionRegistry")
    todo = [(R, R.resolve("get_registry_at"))]
    for cname in ("RegistryAcquisitionStrategy", "DispersiveMeasure"):
        C = model.maybe_cls(cname)
        if C is None:
            continue
        for nm in ("get_acquisition_index", "get_circuit_level_acquisition_index", "acquisition_index", "circuit_level_acquisition_index"):
            g = C.properties.get(nm) or C.resolve(nm)
            if g is not None and "abstractmethod" not in g.decorators and (C, g) not in todo:
                todo.append((C, g))
    n = 0
    for C, g in todo:
        if g is None:
            raise AnalysisError("AcquisitionRegistry.get_registry_at not found")
        try:
            ps = PathEnumerator(Evaluator(model, inline_methods=False)).function_paths(g, self_cls=C)
        except Unsupported as e:
            raise AnalysisError(f"{C.name}.{g.name}: {e}")
        n += 1
        s_ = sym(g.self_name)

        def all_events(evs):
            for e in evs:
                yield e
                if e.kind == "loop" and e.extra and "paths" in e.extra:
                    for bp in e.extra["paths"]:
                        yield from all_events(bp.events)
        st = []
        for p in ps:
            for e in all_events(p.events):
                if e.kind == "store" and e.term is not None and subterms(e.term[1], lambda y: y == s_):
                    st.append(f"{show(e.term[1])}.{e.term[2]}")
                if e.kind == "effect" and e.term is not None and e.term[0] == "call" and isinstance(e.term[1], tuple) and e.term[1][0] == "attr" \
                        and e.term[1][2] in ("append", "extend", "update", "setdefault", "add", "clear", "pop", "__setitem__") and e.term[1][1][0] == "attr" and e.term[1][1][1] == s_:
                    st.append(f"{show(e.term[1][1])}.{e.term[1][2]}(..)")
                if e.kind == "substore" and e.term is not None and subterms(e.term, lambda y: y[0] == "attr" and y[1] == s_):
                    st.append(show(e.term)[:60])
        rep.check(not st, "C07.A8", f"{C.name}.{g.name}[stateless]", g.loc, found=sorted(set(st)) or "no store on the receiver", required="nothing stored between calls",
                  what="the index answer is served from state kept on the registry: " + ", ".join(sorted(set(st))), detail="stateless")
    rep.floor("index lookup functions", n, 1)


# ---------------------------------------------------------------------------------------------
def a1(model: Model, rep: Report):
    rep.rule("C07.A1", "AcquisitionRegistry.get_registry_at: both counters start at 0; the scan ranges over the whole operation listing of the "
                       "reference circuit; only acquisition operations count; at the key match the CURRENT counters are returned (qubit counter -> "
                       "qubit_level_index, circuit counter -> circuit_level_index); otherwise the qubit counter grows by 1 iff same qubit and the "
                       "circuit counter by 1 for every acquisition; a miss returns the default")
    R = model.cls("AcquisitionRegistry")
    f = R.resolve("get_registry_at")
    ev = Evaluator(model, inline_methods=False)
    paths = PathEnumerator(ev).function_paths(f, self_cls=R)
    s = sym(f.self_name)
    key = sym([p for p in f.param_names if p != f.self_name][0])
    construct = "AcquisitionRegistry.get_registry_at"
    miss = [p for p in paths if p.exit == "return" and not any(e.kind == "loopexit" for e in p.events)]
    if not any(e.kind == "loop" for p in paths for e in p.events):
        # closed form: L = [op.acquisition_identifier for op in listing if acquisition];  key not in L -> default;
        #              circuit index = L.index(key);  qubit index = len([i for i in L[:L.index(key)] if i.qubit_index == key.qubit_index])
        from .common import devar
        listing = ("call", ("attr", ("attr", s, "reference_circuit"), "decomposed_operations"), (), ())
        hits = [p for p in paths if p.exit == "return" and p.value is not None and p.value[0] == "new" and p.value[1] == "AcquisitionIndexInfo"]
        others = [p for p in paths if p.exit == "return" and p not in hits]
        if len(hits) != 1:
            raise AnalysisError(f"{construct}: closed form with {len(hits)} answering paths (shape not recognised)")
        d = dict(hits[0].value[2])
        ci, qi = devar(d.get("circuit_level_index")), devar(d.get("qubit_level_index"))

        def is_L(t):
            t = devar(t)
            return (t[0] == "comp" and t[1] == "list" and len(t[3]) == 1 and t[3][0][0] == listing and t[2][0] == "attr" and t[2][2] == "acquisition_identifier"
                    and t[2][1][0] == "bound" and t[3][0][1] == (("isinstance", t[2][1], "IAcquisitionOperation"),))
        ok_ci = ci[0] == "call" and isinstance(ci[1], tuple) and ci[1][0] == "attr" and ci[1][2] == "index" and is_L(ci[1][1]) and ci[2] == (key,)
        ok_qi = False
        if qi[0] == "call" and qi[1] == "len" and len(qi[2]) == 1:
            c_ = devar(qi[2][0])
            if c_[0] == "comp" and len(c_[3]) == 1:
                dom, conds = c_[3][0]
                dom = devar(dom)
                b = c_[2]
                ok_qi = (dom[0] == "slice" and is_L(dom[1]) and dom[2] in (NONE, lin({}, Fraction(0))) and devar(dom[3]) == ci and dom[4] == NONE and b[0] == "bound"
                         and conds == (t_cmp("==", ("attr", b, "qubit_index"), ("attr", key, "qubit_index")),))
        import itertools
        from ..sym import eval_bool
        atoms = []
        for p in paths:
            for a in atoms_of(p.cond):
                if a not in atoms:
                    atoms.append(a)
        member = [a for a in atoms if a[0] == "in" and a[1] == key and is_L(a[2])]
        nonempty = [a for a in atoms if is_L(a)]
        foreign = [a for a in atoms if a not in member and a not in nonempty]
        guard = False
        if len(member) == 1 and not foreign:
            guard = True
            for bits in itertools.product((False, True), repeat=len(atoms)):
                val = dict(zip(atoms, bits))
                if val[member[0]] and not all(val[a] for a in nonempty):
                    continue                                # a listing that contains the key is not empty
                if eval_bool(hits[0].cond, val) != val[member[0]]:
                    guard = False                           # answers an unlisted key, or a listed one gets the default
        rep.check(ok_ci, "C07.A1", construct + "[circuit index]", f.loc, found=show(ci)[:120], required="position of the key in the listing of acquisition identifiers",
                  what="the circuit-level index is not the position of the measurement among all measurements of the listing", detail="circuit-counter")
        rep.check(ok_qi, "C07.A1", construct + "[qubit index]", f.loc, found=show(qi)[:140], required="number of earlier listed acquisitions on the same qubit",
                  what="the qubit-level index is not the count of earlier measurements on that qubit", detail="qubit-counter")
        rep.check(guard and all(p.value == ("attr", s, "_default") for p in others), "C07.A1", construct + "[miss]", f.loc,
                  found="; ".join(f"{show(p.value)} if {show(p.cond)[:60]}" for p in others), required="the default exactly when the key is not listed",
                  what="a measurement that is not in the listing does not get the default answer (or a listed one does)", detail="miss")
        return
    if len(miss) != 1:
        raise AnalysisError(f"{construct}: unexpected shape ({len(miss)} fall-through returns)")
    p = miss[0]
    lp = loop_of(p)
    if lp is None:
        raise AnalysisError(f"{construct}: no scan loop")
    want_iter = ("call", ("attr", ("attr", s, "reference_circuit"), "decomposed_operations"), (), ())
    rep.check(strip_identity_wrappers(lp.term) == want_iter, "C07.A1", construct + "[domain]", f.loc, found=show(lp.term), required=show(want_iter),
              what="the index space is not the whole operation listing of the reference circuit, in order", detail="domain")
    rep.check(p.value == ("attr", s, "_default"), "C07.A1", construct + "[miss]", f.loc, found=show(p.value), required="self._default", what="a miss does not report the default", detail="miss")
    elem = ("bound", "for", lp.node.lineno, show(lp.term))
    ident = ("attr", elem, "acquisition_identifier")
    is_acq = ("isinstance", elem, "IAcquisitionOperation")
    key_match = t_cmp("==", ident, key)
    qubit_match = t_cmp("==", ("attr", ident, "qubit_index"), ("attr", key, "qubit_index"))
    counters = [n for n in lp.extra["assigned"] if n in lp.extra["init_env"]]
    init = lp.extra["init_env"]
    zero = lin({}, Fraction(0))
    one = lin({}, Fraction(1))
    # classify paths by valuation of (is_acq, key_match, qubit_match)
    body: List[Path] = lp.extra["paths"]
    deltas: Dict[Tuple[bool, bool, bool], Tuple[str, Dict[str, Term], Optional[Term]]] = {}
    problems: List[str] = []
    for acq in (True, False):
        for km in (True, False):
            for qm in (True, False):
                if km and not qm:
                    continue  # equal identifiers have equal qubit
                mp = {is_acq: TRUE if acq else FALSE, key_match: TRUE if km else FALSE, qubit_match: TRUE if qm else FALSE}
                hit = []
                for bp in body:
                    c = subst(bp.cond, mp)
                    if c == TRUE:
                        hit.append(bp)
                    elif c != FALSE:
                        raise AnalysisError(f"{construct}: scan condition not decidable from (is acquisition, key match, qubit match): {show(c)}")
                if len(hit) != 1:
                    problems.append(f"{len(hit)} paths for acquisition={acq} key={km} qubit={qm}")
                    continue
                bp = hit[0]
                d = {}
                for n in counters:
                    d[n] = subst(t_add(bp.env.get(n), ("loopvar", n, lp.node.lineno), -1), mp)
                deltas[(acq, km, qm)] = (bp.exit, d, bp.value)
    if problems:
        rep.fail("C07.A1", construct + "[cases]", f.loc, found="; ".join(problems), required="one path per case", what="the scan is not a function of (is acquisition, key match, qubit match)", detail="cases")
        return
    # identify the counters
    qname = [n for n in counters if deltas[(True, False, True)][1][n] == one and deltas[(True, False, False)][1][n] == zero]
    cname = [n for n in counters if deltas[(True, False, True)][1][n] == one and deltas[(True, False, False)][1][n] == one]
    ok_counts = len(qname) == 1 and len(cname) == 1
    rep.check(ok_counts, "C07.A1", construct + "[increments]", f.loc,
              found={f"acq={k[0]},key={k[1]},qubit={k[2]}": {n: show(v) for n, v in d.items()} for k, (_, d, _) in deltas.items()},
              required="qubit counter: +1 iff same qubit (no key match); circuit counter: +1 for every acquisition that is not the match",
              what="the running counters do not count 'earlier measurements on this qubit' / 'earlier measurements'", detail="increments")
    if not ok_counts:
        return
    q, c = qname[0], cname[0]
    for n in (q, c):
        rep.check(init.get(n) == zero, "C07.A1", construct + f"[init:{n}]", f.loc, found=show(init.get(n)), required="0", what="indices do not start at 0", detail=f"init")
    # non-acquisitions leave the counters alone
    for k in ((False, False, False), (False, False, True)):
        ex, d, _ = deltas[k]
        rep.check(all(v == zero for v in d.values()) and ex in ("fall", "continue"), "C07.A1", construct + "[non-acquisition]", f.loc, found={n: show(v) for n, v in d.items()},
                  required="no change", what="operations that are not measurements take part in the count", detail="non-acq")
    # the match returns the current counters
    ex, d, v = deltas[(True, True, True)]
    ok = ex == "return" and v is not None and v[0] == "new" and v[1] == "AcquisitionIndexInfo"
    if ok:
        fl = dict(v[2])
        ok = fl.get("qubit_level_index") == ("loopvar", q, lp.node.lineno) and fl.get("circuit_level_index") == ("loopvar", c, lp.node.lineno)
    rep.check(ok, "C07.A1", construct + "[match]", f.loc, found=f"{ex} {show(v) if v else ''}", required=f"return AcquisitionIndexInfo(qubit_level_index={q}, circuit_level_index={c}) before any increment",
              what="the reported indices are not the number of earlier (same-qubit) measurements -- swapped, or already incremented", detail="match")
    for k in ((True, False, True), (True, False, False)):
        rep.check(deltas[k][0] in ("fall", "continue"), "C07.A1", construct + "[keeps-scanning]", f.loc, found=deltas[k][0], required="continue scanning", what="the scan stops before the match",
                  detail="early-exit")
    # default value
    init_f = R.resolve("__init__")
    dflt = None
    for n in ast.walk(init_f.node):
        if isinstance(n, (ast.Assign, ast.AnnAssign)):
            t = n.targets[0] if isinstance(n, ast.Assign) else n.target
            if isinstance(t, ast.Attribute) and t.attr == "_default":
                dflt = ast.unparse(n.value)
    rep.check(dflt is not None and dflt.replace(" ", "") in ("AcquisitionIndexInfo(-1,-1)", "AcquisitionIndexInfo(qubit_level_index=-1,circuit_level_index=-1)"),
              "C07.A1", "AcquisitionRegistry._default", init_f.loc, found=dflt, required="AcquisitionIndexInfo(-1, -1)", what="an unknown measurement is not marked by the documented -1", detail="default")
    # reference circuit is the constructor argument
    refs = [ast.unparse(n.value) for n in ast.walk(init_f.node) if isinstance(n, (ast.Assign, ast.AnnAssign))
            and isinstance((n.targets[0] if isinstance(n, ast.Assign) else n.target), ast.Attribute)
            and (n.targets[0] if isinstance(n, ast.Assign) else n.target).attr == "reference_circuit"]
    cparam = [p for p in init_f.param_names if p != init_f.self_name]
    rep.check(refs == cparam[:1], "C07.A1", "AcquisitionRegistry.reference_circuit", init_f.loc, found=refs, required=cparam[:1], what="the registry does not index the circuit it was created for", detail="reference")


# ---------------------------------------------------------------------------------------------
def a2(model: Model, rep: Report):
    rep.rule("C07.A2", "acquisition_index reads qubit_level_index and circuit_level_acquisition_index reads circuit_level_index of "
                       "acquisition_strategy.get_acquisition_info(task=self); the registry strategy asks its registry with the task's own identifier")
    iacq = model.cls("IAcquisitionOperation")
    n = 0
    for C in model.subclasses(iacq, concrete_only=True):
        for prop, fld in (("acquisition_index", "qubit_level_index"), ("circuit_level_acquisition_index", "circuit_level_index")):
            f = C.resolve(prop)
            if f is None or "abstractmethod" in f.decorators:
                raise AnalysisError(f"{C.name}.{prop} not found")
            v = Evaluator(model, inline_methods=False).value_of(f, self_cls=C)
            s = sym(f.self_name)
            ok = v[0] == "attr" and v[2] == fld and is_call_of(v[1], "get_acquisition_info") and v[1][1][1] == ("attr", s, "acquisition_strategy") \
                and (list(v[1][2]) + [x for _, x in v[1][3]]) == [s]
            n += 1
            rep.check(ok, "C07.A2", f"{C.name}.{prop}", f.loc, found=show(v), required=f"self.acquisition_strategy.get_acquisition_info(task=self).{fld}",
                      what="the accessor reports the other kind of index (or another operation's)", detail=prop)
    rep.floor("acquisition accessors", n, 2)
    S = model.cls("RegistryAcquisitionStrategy")
    f = S.resolve("get_acquisition_info")
    v = Evaluator(model, inline_methods=False).value_of(f, self_cls=S)
    s = sym(f.self_name)
    task = sym([p for p in f.param_names if p != f.self_name][0])
    ok = is_call_of(v, "get_registry_at") and v[1][1] == ("attr", s, "registry") and (list(v[2]) + [x for _, x in v[3]]) == [("attr", task, "acquisition_identifier")]
    rep.check(ok, "C07.A2", "RegistryAcquisitionStrategy.get_acquisition_info", f.loc, found=show(v), required="self.registry.get_registry_at(key=task.acquisition_identifier)",
              what="the strategy does not look up the asking measurement's own identifier", detail="strategy")
    M = model.cls("DispersiveMeasure")
    g = M.resolve("acquisition_identifier")
    v = Evaluator(model).value_of(g, self_cls=M)
    rep.check(v == ("attr", sym(g.self_name), "_acquisition_identifier"), "C07.A2", "DispersiveMeasure.acquisition_identifier", g.loc, found=show(v), required="self._acquisition_identifier",
              what="the measurement does not report its own identifier", detail="identifier")


# ---------------------------------------------------------------------------------------------
def a3(model: Model, rep: Report):
    rep.rule("C07.A3", "get_acquisition_indices(qubit) / (tag): iterate self.operations in order; keep acquisition operations whose identifier has the "
                       "requested qubit / qubit AND tag; append their acquisition_index; equal_tag compares qubit and tag")
    D = model.cls("DeclarativeCircuit")
    fs = D.resolve_all("get_acquisition_indices")
    rep.floor("get_acquisition_indices variants", len(fs), 2)
    T = model.cls("AcquisitionTag")
    et = T.resolve("equal_tag")
    evt = Evaluator(model)
    evt.set_type(sym("other"), T)
    fv = bool_value(evt.eval_function(et, self_cls=T))
    ts, to = sym(et.self_name), sym([p for p in et.param_names if p != et.self_name][0])
    want = t_and(t_cmp("==", ("attr", ts, "qubit_index"), ("attr", to, "qubit_index")), t_cmp("==", ("attr", ts, "tag"), ("attr", to, "tag")))
    from ..sym import equivalent
    rep.check(equivalent(fv, want, evt.enum_members) is None, "C07.A3", "AcquisitionTag.equal_tag", et.loc, found=show(fv), required=show(want),
              what="tag matching does not compare qubit and tag", detail="equal-tag")
    for f in fs:
        ev = Evaluator(model, inline_methods=True, opaque={"CircuitCompositeOperation.decomposed_operations"})
        ps = PathEnumerator(ev).function_paths(f, self_cls=D)
        s = sym(f.self_name)
        param = [p for p in f.param_names if p != f.self_name][0]
        arg = sym(param)
        by_tag = ev.ann_class(f.params[1].annotation, f.module) is T
        construct = f"DeclarativeCircuit.get_acquisition_indices({'tag' if by_tag else 'qubit_index'})"
        ops = ev.attr(s, "operations", Frame(f, f.module, {}, D, 0))
        n_ret = 0
        for p in [q for q in ps if q.exit == "return"]:
            n_ret += 1
            res = p.value
            inner = res
            if res is not None and res[0] == "call" and isinstance(res[1], tuple) and res[1][0] == "attr" and res[1][2] in ("asarray", "array") and res[2]:
                inner = res[2][0]
            # the kept indices as one comprehension: written as such, or as the accumulator loop it abbreviates
            from ..listflow import as_single_comp
            comp = as_single_comp(p, inner) if inner is not None else None
            if comp is not None and comp[0] == "comp":
                from ..extreme import fuse_comprehensions
                comp = fuse_comprehensions(comp)      # a listing pre-filtered by a helper comprehension ranges over that helper's own domain
            if comp is not None and comp[0] in ("list", "tuple") and not comp[1] and p.cond != TRUE and not subterms(
                    p.cond, lambda y: y == ops or (y[0] == "attr" and y[2] in ("operations", "_structure", "_acquisition_registry", "_added_operations"))):
                # a way out that answers with NOTHING without looking at the listing: correct only if no listed measurement could match -- a test on the query alone
                # (the qubit index against a declared count, a tag spelling) cannot know that
                rep.fail("C07.A4", construct + "[early empty answer]", f.loc, found=f"returns an empty result when [{show(p.cond)[:120]}]",
                         required="every answer is the filtered listing", what=f"when [{show(p.cond)[:100]}] the query is answered with an empty array without consulting the listing: "
                         "measurements that exist for that qubit / tag are not reported (the indices of a qubit are no longer 0..n-1 of ITS measurements)", detail="early-empty")
                continue
            if comp is None or comp[0] != "comp" or len(comp[3]) != 1:
                raise AnalysisError(f"{construct}: the result is not a filtered listing ({show(inner) if inner else None})")
            dom, conds = comp[3][0]
            rep.check(strip_identity_wrappers(dom) == ops, "C07.A3", construct + "[domain]", f.loc, found=show(dom), required=show(ops),
                      what="the filter does not range over the circuit's whole operation listing in order", detail="domain")
            bs = subterms(comp, lambda x: x[0] == "bound" and x[3] == show(dom))
            if len(bs) != 1:
                raise AnalysisError(f"{construct}: bound variable of the listing not identified")
            elem = bs[0]
            ident = ("attr", elem, "acquisition_identifier")
            is_acq = ("isinstance", elem, "IAcquisitionOperation")
            if by_tag:
                match = t_and(t_cmp("==", ("attr", ident, "qubit_index"), ("attr", arg, "qubit_index")), t_cmp("==", ("attr", ident, "tag"), ("attr", arg, "tag")))
            else:
                match = t_cmp("==", ("attr", ident, "qubit_index"), arg)
            keep = t_and(*conds) if conds else TRUE
            bad = [] if comp[2] == ("attr", elem, "acquisition_index") else [f"collects {show(comp[2])}"]
            eq = equivalent(keep, t_and(is_acq, match), ev.enum_members)
            rep.check(eq is None and not bad, "C07.A3", construct, f.loc,
                      found=(f"keep iff {show(keep)}" + ("; " + "; ".join(bad) if bad else "")), required=f"operation.acquisition_index for every operation with {show(t_and(is_acq, match))}",
                      what="the filter returns indices of other measurements, or another kind of index", detail="filter")
        rep.floor(f"return paths of {construct}", n_ret, 1)


# ---------------------------------------------------------------------------------------------
def a4(model: Model, rep: Report):
    rep.rule("C07.A4", "AcquisitionIdentifier equality includes a counter-fed unique identifier; a measurement builds its identifier from its own qubit "
                       "index and acquisition tag")
    A = model.cls("AcquisitionIdentifier")
    flds = A.all_fields()
    from .c03 import unique_identifier
    from .common import factory_counter
    uid = [(n, fi) for n, fi in flds.items() if fi.compare and fi.default_factory is not None and factory_counter(model, fi.owner.module, fi.default_factory) is not None]
    ok = unique_identifier(model, A)[0] and len(uid) == 1
    from .c05 import eq_kind
    rep.check(ok and eq_kind(A) == "generated", "C07.A4", "AcquisitionIdentifier[unique]", A.loc, found=f"compared counter fields: {[u[0] for u in uid]}, eq={eq_kind(A)}",
              required="a compared identifier fed by a counter incremented in __post_init__", what="two measurements with the same qubit and tag are indistinguishable: the later one reports the earlier one's index",
              detail="unique")
    rep.check(all(flds[n].compare for n in ("qubit_index", "tag") if n in flds) and {"qubit_index", "tag"} <= set(flds), "C07.A4", "AcquisitionIdentifier[fields]", A.loc,
              found=list(flds), required="qubit_index and tag compared", what="identifier lost qubit or tag", detail="fields")
    M = model.cls("DispersiveMeasure")
    post = M.resolve("__post_init__")
    ev = Evaluator(model, inline_methods=False)
    ps = PathEnumerator(ev).function_paths(post, self_cls=M)
    s = sym(post.self_name)
    sets = [c for p in ps for e in p.events if e.kind == "effect" for c in find_calls(e.term, "__setattr__")]
    sets += [("store",) + tuple(e.term[1:]) for p in ps for e in p.events if e.kind == "store" and e.term[2] == "_acquisition_identifier"]
    ok = False
    found = None
    for c in sets:
        if c[0] == "call" and len(c[2]) == 3 and c[2][0] == s and c[2][1] == ("const", "_acquisition_identifier"):
            v = c[2][2]
        elif c[0] == "store":
            v = c[3]
        else:
            continue
        found = show(v)
        ok = v[0] == "new" and v[1] == "AcquisitionIdentifier" and dict(v[2]).get("qubit_index") == ("attr", s, "qubit_index") and dict(v[2]).get("tag") == ("attr", s, "acquisition_tag")
    rep.check(ok, "C07.A4", "DispersiveMeasure.__post_init__", post.loc, found=found, required="AcquisitionIdentifier(qubit_index=self.qubit_index, tag=self.acquisition_tag)",
              what="a measurement's identifier does not carry its own qubit and tag", detail="built-from-own")


# ---------------------------------------------------------------------------------------------
def a5(model: Model, rep: Report, rule: str):
    rep.rule(rule, "wherever DeclarativeCircuit._structure is (re)bound, the _acquisition_registry of the same object is an AcquisitionRegistry on that very structure")
    D = model.cls("DeclarativeCircuit")
    n = 0
    for name, fs in list(D.methods.items()):
        for f in fs:
            if lifted_to_callers(model, f):
                continue  # a private helper is run in place where it is called; the pairing is decided there
            def _binds(fn_node, depth=0):
                # syntactic pre-filter: binds _structure itself or through a private helper of the class
                for x in ast.walk(fn_node):
                    if isinstance(x, (ast.Assign, ast.AnnAssign)):
                        tg = x.targets[0] if isinstance(x, ast.Assign) else x.target
                        if isinstance(tg, ast.Attribute) and tg.attr == "_structure":
                            return True
                    if depth < 2 and isinstance(x, ast.Call) and isinstance(x.func, ast.Attribute) and _is_helper_name(x.func.attr):
                        for h in D.resolve_all(x.func.attr):
                            if _binds(h.node, depth + 1):
                                return True
                return False
            if not _binds(f.node):
                continue
            ev = Evaluator(model, inline_methods=False)
            ps = PathEnumerator(ev).function_paths(f, self_cls=D)
            s = sym(f.self_name)
            for p in ps:
                if p.exit not in ("return", "fall"):
                    continue
                n += 1
                construct = f"DeclarativeCircuit.{name}"
                # stores in order
                st_struct = [(i, e.term) for i, e in enumerate(p.events) if e.kind == "store" and e.term[2] == "_structure"]
                st_reg = [(i, e.term) for i, e in enumerate(p.events) if e.kind == "store" and e.term[2] == "_acquisition_registry"]
                if not st_struct:
                    n -= 1
                    continue
                i_s, ts = st_struct[-1]
                later = [(i, t) for i, t in st_reg if i > i_s]
                ok = False
                found = "no registry assignment after the structure is bound"
                if later:
                    i_r, tr = later[-1]
                    reg = tr[3]
                    found = show(reg)
                    if reg[0] == "new" and reg[1] == "AcquisitionRegistry":
                        circ = dict(reg[2]).get("circuit")
                        same_obj = tr[1] == ts[1] or (tr[1][0] == "new" and ts[1][0] == "new" and tr[1][1] == ts[1][1])
                        ok = same_obj and (circ == ts[3] or circ == ("attr", ts[1], "_structure"))
                rep.check(ok, rule, construct, f.loc, found=found, required="<obj>._acquisition_registry = AcquisitionRegistry(circuit=<the structure just bound>)",
                          what="the circuit's acquisition registry indexes a different (discarded) structure: measurements created against it report -1", detail="pairing")
    rep.floor("paths binding DeclarativeCircuit._structure", n, 1)
