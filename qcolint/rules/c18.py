"""C18 -- drawing shows the schedule and leaves the circuit alone (claimed in part).

W1  geometry: pivot x == start_time, y == -row(identifier.id) * spacing (row = position in the requested channel order); width ==
    duration; every factory derives its transform(s) from the drawn operation itself and its own channels; bars / headers sit on
    the row of their index.
W2  figure width (= C04.D3).
W3  channel order: reorder_indices raises iff a requested channel is not occupied; result == requested ++ remaining in original order.
W4  label map: writer and reader both key by row index; states and indices follow the reordered rows.
W5  leaves the circuit alone: the compact drawing runs inside the temporary duration override whose enter/exit invalidate every
    memo (C03.H1) and restore the entry value (C03.H3); the drawing entry points write no circuit state (C03.H2).
Not decided: that matplotlib succeeds for every circuit.
"""
from __future__ import annotations

import ast
from fractions import Fraction
from typing import Dict, List, Optional, Set, Tuple

from ..effects import Effects
from ..model import AnalysisError, FunctionInfo, Model
from ..paths import Path, PathEnumerator, find_calls
from ..report import Report
from ..resolve import CallGraph
from ..sym import FALSE, NONE, TRUE, Evaluator, Frame, Term, Unsupported, atoms_of, lin, number, show, subst, subterms, sym, t_add, t_mul, t_not, t_scale
from .common import is_call_of, loop_of, norm_stmt, share_rule

FACTORY_MODULES = ("draw_components.factory_draw_components", "draw_components.factory_multi_draw_components")


def check(model: Model, rep: Report, tier: str):
    with rep.isolated():
        w1(model, rep)
    from .c04 import width_rule
    with rep.isolated():
        width_rule(model, rep, "C18.W2")
    with rep.isolated():
        w3(model, rep)
    with rep.isolated():
        w4(model, rep)
    with rep.isolated():
        w5(model, rep)
    with rep.isolated():
        w6(model, rep)
    with rep.isolated():
        w10(model, rep)
    from .common import order_kept_rule
    with rep.isolated():
        order_kept_rule(model, rep, "C18.W9", "TransformConstructor", "channel_indices",
                        "TransformConstructor.channel_indices IS the row order of the drawing (identifier_to_pivot places an operation on row channel_indices.index(qubit)): "
                        "the constructor keeps the list as given -- headers, channel bars and labels are laid out from the same requested order",
                        "operations are drawn on rows in another order than the headers and channel bars (the requested order)")
    from .c01 import r10 as _r10
    from .common import share_rule as _share
    with rep.isolated():
        _share(rep, model, _r10, "C18.W8", "compact drawing works by replacing the one getter every global duration strategy reads through: the strategies look their own key up "
               "through GlobalDurationRegistry.get_registry_at and the override installs a lookup in the temporary table (= C01.R10); a strategy that reads the "
               "registry some other way is drawn with the file durations")


def w10(model: Model, rep: Report):
    """Every row of the draw-factory tables pairs an operation kind with a factory written for that kind."""
    rep.rule("C18.W10", "in the draw-factory tables of VisualCircuitDescription every key K is (a subclass of) the operation type its factory's construct() is declared for, or a kind on the same number of qubits: "
                        "a two-qubit kind handed to a single-qubit factory is drawn on its first row only (the other qubit's row stays empty)")
    V = model.cls("VisualCircuitDescription")
    n = 0
    for f in [g for gs in V.methods.values() for g in gs]:
        for d in ast.walk(f.node):
            if not isinstance(d, ast.Dict):
                continue
            for k, v in zip(d.keys, d.values):
                if not (isinstance(k, ast.Name) and isinstance(v, ast.Call) and isinstance(v.func, ast.Name)):
                    continue
                K, F = model.maybe_cls(k.id), model.maybe_cls(v.func.id)
                if K is None or F is None:
                    continue
                c = F.resolve("construct")
                if c is None or len(c.params) < 2 or c.params[1].annotation is None:
                    continue
                A = model.maybe_cls(ast.unparse(c.params[1].annotation).strip("'\""))
                if A is None:
                    continue        # declared for a generic / interface type: nothing to compare
                n += 1

                def arity(c_):
                    two = model.maybe_cls("TwoQubitOperation")
                    if two is not None and (c_ is two or c_.is_subclass_of(two)):
                        return "two qubits"
                    flds_ = c_.all_fields()
                    return "a list of qubits" if "qubit_indices" in flds_ else "one qubit" if "qubit_index" in flds_ else "?"
                # the declared type may be a sibling of the same shape (a factory annotated with the kind it was copied from): what matters for the rows is how many
                # qubits the kind has
                ok = K is A or K.is_subclass_of(A) or (arity(K) == arity(A) and arity(K) != "?")
                rep.check(ok, "C18.W10", f"draw table[{K.name}]", f"{f.module.relpath}:{k.lineno}", found=f"{K.name} ({arity(K)}) -> {F.name} (written for {A.name}: {arity(A)})", required=f"a factory written for a kind on {arity(K)}",
                          what=f"{K.name} operations are drawn by {F.name}, which is written for {A.name}: what it reads of the operation (its first channel only, other fields) does not "
                               f"cover a {K.name} -- rows of the operation stay empty or it is misplaced", detail=f"row:{K.name}")
    rep.floor("draw-factory table rows with a typed factory", n, 10)


def w6(model: Model, rep: Report):
    """Sibling agreement inside IRectTransform: the centre computed from an aligned pivot and the side pivots computed from the centre name the same rectangle."""
    rep.rule("C18.W6", "IRectTransform.center_pivot agrees with its siblings: for every alignment <V>_<H> (V in TOP/MID/BOT, H in LEFT/CENTER/RIGHT) the point that "
                       "top_pivot / bot_pivot / left_pivot / right_pivot place on side V and side H of the centre is the pivot itself -- tabulated over all 9 members with "
                       "symbolic pivot, width and height (where a block is drawn horizontally and on which row follows from this centre)")
    K = model.cls("IRectTransform")
    f = K.resolve("center_pivot")
    if f is None:
        raise AnalysisError("IRectTransform.center_pivot vanished")
    ev = Evaluator(model, inline_methods=False)
    members = ev.enum_members("TransformAlignment")
    if not members or len(members) != 9:
        raise AnalysisError(f"TransformAlignment members changed: {members}")
    s = sym(f.self_name)
    W, H = ("attr", s, "width"), ("attr", s, "height")
    PX, PY = ("attr", ("attr", s, "pivot"), "x"), ("attr", ("attr", s, "pivot"), "y")
    # side offsets from the sibling properties: <side>_pivot == center_pivot + Vec2D(x=dx, y=dy)
    side = {}
    for name in ("left", "right", "top", "bot"):
        g = K.resolve(f"{name}_pivot")
        if g is None:
            raise AnalysisError(f"IRectTransform.{name}_pivot vanished")
        rets = [n for n in ast.walk(g.node) if isinstance(n, ast.Return) and n.value is not None]
        ok = len(rets) == 1 and isinstance(rets[0].value, ast.BinOp) and isinstance(rets[0].value.op, ast.Add)
        vec = None
        if ok:
            l, r = rets[0].value.left, rets[0].value.right
            for a, b in ((l, r), (r, l)):
                if isinstance(a, ast.Attribute) and a.attr == "center_pivot" and isinstance(b, ast.Call) and ast.unparse(b.func).endswith("Vec2D"):
                    vec = b
        if vec is None:
            raise AnalysisError(f"IRectTransform.{name}_pivot is not `self.center_pivot + Vec2D(...)` (shape not recognised)")
        fr = Frame(g, g.module, {g.self_name: s}, K, 0)
        kw = {k.arg: ev.expr(k.value, fr) for k in vec.keywords}
        side[name] = (kw.get("x", lin({}, Fraction(0))), kw.get("y", lin({}, Fraction(0))))
    zero = lin({}, Fraction(0))
    ps = [p for p in PathEnumerator(Evaluator(model, inline_methods=False)).function_paths(f, self_cls=K) if p.exit == "return"]
    PA = ("attr", s, "parent_alignment")
    bad = []
    n = 0
    for m in members:
        mp = {("eq", *sorted([PA, ("enum", "TransformAlignment", k)], key=repr)): (TRUE if k == m else FALSE) for k in members}
        hit = []
        for p in ps:
            c = subst(p.cond, mp)
            if c == TRUE:
                hit.append(p)
            elif c != FALSE:
                raise AnalysisError(f"center_pivot: path condition not decided for {m}: {show(c)[:120]}")
        if len(hit) != 1 or hit[0].value is None:
            raise AnalysisError(f"center_pivot: {len(hit)} paths for alignment {m}")
        v = subst(hit[0].value, {PA: ("enum", "TransformAlignment", m)})
        if not (v[0] == "new" and v[1] == "Vec2D"):
            raise AnalysisError(f"center_pivot: value for {m} is not a Vec2D: {show(v)[:100]}")
        d = dict(v[2])
        cx, cy = d.get("x"), d.get("y")
        vpart, hpart = m.split("_", 1)
        dx = {"LEFT": side["left"][0], "RIGHT": side["right"][0], "CENTER": zero}[hpart]
        dy = {"TOP": side["top"][1], "BOT": side["bot"][1], "MID": zero}[vpart]
        n += 1
        okx = t_add(t_add(cx, dx), PX, -1) == zero
        oky = t_add(t_add(cy, dy), PY, -1) == zero
        if not (okx and oky):
            bad.append(f"{m}: centre ({show(cx)}, {show(cy)}) puts the {vpart.lower()}-{hpart.lower()} point at ({show(t_add(cx, dx))}, {show(t_add(cy, dy))}), not at the pivot")
    rep.check(not bad, "C18.W6", "IRectTransform.center_pivot", f.loc, found="; ".join(bad[:3]) or f"all {n} alignments agree with left/right/top/bot_pivot", required="centre + offset of the named side == pivot",
              what="the centre of an aligned rectangle disagrees with the side pivots of the same class: blocks are shifted by their own width / height (overlap tests and rows go wrong): " + "; ".join(bad[:2]),
              detail="center")


# ---------------------------------------------------------------------------------------------
def w1(model: Model, rep: Report):
    rep.rule("C18.W1", "TransformConstructor: pivot == Vec2D(x=time_component.start_time, y=-channel_indices.index(identifier.id) * channel_spacing); width == "
                       "time_component.duration; height == channel_height; construct_transform uses exactly these; every draw factory calls construct_transform with "
                       "time_component = the drawn operation and an identifier derived from that same operation; channel bars / headers are placed at -index * spacing")
    T = model.cls("TransformConstructor")
    f = T.resolve("identifier_to_pivot")
    # the class's own helper methods are seen through; everything outside the transform constructor stays a named atom
    ev = Evaluator(model, inline_methods=True, opaque={x.qualname for x in model.all_functions() if x.cls is None or x.cls.name not in ("TransformConstructor", "ITransformConstructor")})
    v = ev.value_of(f, self_cls=T)
    s = sym(f.self_name)
    ident, tc = sym(f.param_names[1]), sym(f.param_names[2])
    ok = v[0] == "new" and v[1] == "Vec2D"
    found = show(v)
    if ok:
        d = dict(v[2])
        x, y = d.get("x"), d.get("y")
        idv = ev.attr(ident, "id", Frame(f, f.module, {}, T, 0))
        row = ("call", ("attr", ("attr", s, "channel_indices"), "index"), (idv,), ())
        want_y = t_scale(t_mul(row, ("attr", s, "channel_spacing")), Fraction(-1))
        ok = x == ("attr", tc, "start_time") and y == want_y
        found = f"x={show(x)}, y={show(y)}"
    rep.check(ok, "C18.W1", "TransformConstructor.identifier_to_pivot", f.loc, found=found, required="x = time_component.start_time, y = -channel_indices.index(identifier.id) * channel_spacing",
              what="operations are not drawn at their start time on the row of their qubit in the requested order", detail="pivot")
    g = T.resolve("identifier_to_width")
    v = Evaluator(model, inline_methods=False).value_of(g, self_cls=T)
    rep.check(v == ("attr", sym(g.param_names[1]), "duration"), "C18.W1", "TransformConstructor.identifier_to_width", g.loc, found=show(v), required="time_component.duration", what="drawn width is not the duration", detail="width")
    h = T.resolve("identifier_to_height")
    v = Evaluator(model, inline_methods=False).value_of(h, self_cls=T)
    rep.check(v == ("attr", sym(h.self_name), "channel_height"), "C18.W1", "TransformConstructor.identifier_to_height", h.loc, found=show(v), required="self.channel_height", what="row height changed", detail="height")
    I = model.cls("ITransformConstructor")
    c = I.resolve("construct_transform")
    v = Evaluator(model, inline_methods=False).value_of(c, self_cls=I)
    cs = sym(c.self_name)
    ci, ct = sym(c.param_names[1]), sym(c.param_names[2])
    ok = v[0] == "new" and v[1] == "RectTransform"
    if ok:
        d = dict(v[2])
        def inner(t):
            return (list(t[2][0][1:]) if False else None)
        pv = d.get("_pivot_strategy")
        wv = d.get("_width_strategy")
        hv = d.get("_height_strategy")
        def arg_of(t, cls):
            if t is None:
                return None
            if t[0] == "new" and t[1] == cls and len(t[2]) == 1:
                return t[2][0][1]
            if t[0] == "call" and t[1] == ("cls", cls) and len(t[2]) == 1:
                return t[2][0]
            return None
        p_ok = _call_is(arg_of(pv, "FixedPivot"), cs, "identifier_to_pivot", [ci, ct])
        w_ok = _call_is(arg_of(wv, "FixedLength"), cs, "identifier_to_width", [ct])
        h_ok = _call_is(arg_of(hv, "FixedLength"), cs, "identifier_to_height", [ci])
        ok = p_ok and w_ok and h_ok
    rep.check(ok, "C18.W1", "ITransformConstructor.construct_transform", c.loc, found=show(v), required="RectTransform(FixedPivot(identifier_to_pivot(identifier, time)), FixedLength(identifier_to_width(time)), FixedLength(identifier_to_height(identifier)))",
              what="the transform handed to draw components is not built from pivot / width / height of the same identifier and time component", detail="construct-transform")
    # offset constructor keeps y and shifts x within the duration
    O = model.cls("OffsetTransformConstructor")
    f2 = O.resolve("identifier_to_pivot")
    v = Evaluator(model, inline_methods=False).value_of(f2, self_cls=O)
    os_, oi, ot = sym(f2.self_name), sym(f2.param_names[1]), sym(f2.param_names[2])
    ok = v[0] == "new" and v[1] == "Vec2D"
    if ok:
        d = dict(v[2])
        dp = ("call", ("attr", ("attr", os_, "default_transform"), "identifier_to_pivot"), (), (("identifier", oi), ("time_component", ot)))
        ok = d.get("y") == ("attr", dp, "y") and d.get("x") == t_add(("attr", dp, "x"), t_mul(("attr", os_, "pivot_offset_scalar_x"), ("attr", ot, "duration")))
    rep.check(ok, "C18.W1", "OffsetTransformConstructor.identifier_to_pivot", f2.loc, found=show(v), required="x = default.x + offset * duration, y = default.y", what="offset drawing moves an operation to another row or outside its slot", detail="offset")
    # factories: who calls construct_transform with what
    n_sites = 0
    fns = []
    for suffix in FACTORY_MODULES:
        m = model.module(suffix)
        for C in m.classes.values():
            for fs in C.methods.values():
                fns.extend(fs)
        fns.extend(m.functions.values())          # helpers shared by several factories position components as well
    has_site = {}
    helper_params: Dict[FunctionInfo, Set[str]] = {}
    for fn in fns:
        sites = [n for n in ast.walk(fn.node) if isinstance(n, ast.Call) and isinstance(n.func, ast.Attribute) and n.func.attr == "construct_transform"]
        has_site[fn] = bool(sites)
        for call in sites:
            n_sites += 1
            kw = {k.arg: k.value for k in call.keywords}
            tcv = kw.get("time_component", call.args[1] if len(call.args) > 1 else None)
            idv = kw.get("identifier", call.args[0] if call.args else None)
            ok, why = _factory_site_ok(fn, call, tcv, idv, helper_params)
            rep.check(ok, "C18.W1", f"{fn.qualname}[construct_transform]", f"{fn.module.relpath}:{call.lineno}", found=norm_stmt(call) if ok else why, required="identifier and time component both taken from the drawn operation",
                      what="a draw component is positioned with another operation's time or channel: " + why, detail="factory:" + (why or "ok"))
    # factories that position their component through a shared helper: the helper's sites were checked above; the factory must hand ITS operation to the helper
    by_name = {}
    for fn in fns:
        by_name.setdefault(fn.name, []).append(fn)
    reach = {fn for fn, v in has_site.items() if v}
    changed = True
    while changed:
        changed = False
        for fn in fns:
            if fn in reach:
                continue
            for n in ast.walk(fn.node):
                if isinstance(n, ast.Call):
                    nm = n.func.attr if isinstance(n.func, ast.Attribute) else (n.func.id if isinstance(n.func, ast.Name) else None)
                    if nm and any(g in reach for g in by_name.get(nm, [])):
                        reach.add(fn)
                        changed = True
                        # the operation handed on is the caller's own operation parameter
                        op_params = [a.arg for a in fn.node.args.args if a.arg == "operation"]
                        g_ = [g for g in by_name.get(nm, []) if g in reach][0]
                        g_params = [a.arg for a in g_.node.args.args if not (g_.cls is not None and a.arg == g_.self_name)]
                        kw_ = {k.arg: k.value for k in n.keywords}

                        def bound_to(pname, default_pos=None):
                            if pname in kw_:
                                return kw_[pname]
                            i_ = g_params.index(pname) if pname in g_params else default_pos
                            return n.args[i_] if i_ is not None and i_ < len(n.args) else None
                        passed = bound_to("operation", 0)
                        # qubits handed next to the operation (the helper builds the identifier from them) are read off the caller's own operation
                        for hp_ in sorted(helper_params.get(g_, ())):
                            hv_ = bound_to(hp_)
                            if op_params and (hv_ is None or not (_names(hv_) and _names(hv_) <= {"operation"})):
                                rep.fail("C18.W1", f"{fn.qualname}[{nm}:{hp_}]", f"{fn.module.relpath}:{n.lineno}", found=norm_stmt(n), required=f"{hp_} taken from the drawn operation",
                                         what="a draw component is positioned on a qubit that is not read off the operation it draws", detail=f"helper-param:{fn.name}:{hp_}")
                        if op_params and not (isinstance(passed, ast.Name) and passed.id == "operation"):
                            rep.fail("C18.W1", f"{fn.qualname}[{nm}]", f"{fn.module.relpath}:{n.lineno}", found=norm_stmt(n), required="the drawn operation itself is handed to the positioning helper",
                                     what="a draw component is positioned with another operation than the one it draws", detail="factory:helper-arg")
                        # (no break: every call of a positioning helper in this function is a site)
    n_fact = len([fn for fn in reach if fn.cls is not None and fn.name == "construct"])
    rep.floor("draw factories that position their component from the drawn operation", n_fact, 20)
    rep.analysed["C18.W1 construct_transform call sites"] = n_sites
    # bars / headers
    V = model.cls("VisualCircuitDescription")
    for name in ("get_channel_bar", "get_channel_header"):
        fb = V.resolve(name)
        ps = PathEnumerator(Evaluator(model, inline_methods=False)).function_paths(fb, self_cls=V)
        vs, idx = sym(fb.self_name), sym(fb.param_names[1])
        want_y = t_scale(t_mul(idx, ev_attr(model, V, vs, "channel_spacing", fb)), Fraction(-1))
        for p in [q for q in ps if q.exit == "return"]:
            v = p.value
            pv = dict(v[2]).get("pivot") if v is not None and v[0] == "new" else None
            ok = pv is not None and pv[0] == "new" and pv[1] == "Vec2D" and dict(pv[2]).get("y") == want_y and number(dict(pv[2]).get("x")) == 0
            rep.check(ok, "C18.W1", f"VisualCircuitDescription.{name}[row]", fb.loc, found=show(pv) if pv else show(v), required="Vec2D(x=0, y=-index * channel_spacing)", what="channel bar / header is not on the row of its index", detail=f"row:{name}")
    tcons = V.resolve("get_transform_constructor")
    v = Evaluator(model, inline_methods=False).value_of(tcons, self_cls=V)
    vs = sym(tcons.self_name)
    ok = v[0] == "new" and v[1] == "TransformConstructor" and dict(v[2]).get("channel_indices") == ("attr", vs, "channel_indices") and dict(v[2]).get("channel_height") == ("attr", vs, "channel_height") \
        and dict(v[2]).get("channel_spacing") == ev_attr(model, V, vs, "channel_spacing", tcons)
    rep.check(ok, "C18.W1", "VisualCircuitDescription.get_transform_constructor", tcons.loc, found=show(v), required="TransformConstructor(channel_height, channel_spacing, channel_indices of the description)",
              what="operations are laid out with another row order / spacing than bars and headers", detail="constructor")
    gd = V.resolve("get_operation_draw_components")
    ps = PathEnumerator(Evaluator(model, inline_methods=False)).function_paths(gd, self_cls=V)
    vs = sym(gd.self_name)
    for p in [q for q in ps if q.exit == "return"]:
        v = p.value
        ok = v is not None and is_call_of(v, "construct") and dict(v[3]).get("operations") == ("attr", vs, "operations")
        rep.check(ok, "C18.W1", "VisualCircuitDescription.get_operation_draw_components", gd.loc, found=show(v)[:200] if v else None, required="factory_manager.construct(operations=self.operations, ...)", what="not all listed operations are handed to the draw factories", detail="all-operations")


def ev_attr(model, cls, self_t, name, fn):
    ev = Evaluator(model, inline_methods=False)
    ev.set_type(self_t, cls)
    return ev.attr(self_t, name, Frame(fn, fn.module, {}, cls, 0))


def _call_is(t: Optional[Term], recv: Term, name: str, args: List[Term]) -> bool:
    if t is None or t[0] != "call" or not (isinstance(t[1], tuple) and t[1][0] == "attr" and t[1][1] == recv and t[1][2] == name):
        return False
    return (list(t[2]) + [v for _, v in sorted(t[3])]) == args or (list(t[2]) + [v for _, v in t[3]]) == args or sorted(map(repr, list(t[2]) + [v for _, v in t[3]])) == sorted(map(repr, args))


def _names(e: ast.AST) -> Set[str]:
    return {n.id for n in ast.walk(e) if isinstance(n, ast.Name)}


def _enclosing_comp(root: ast.AST, comp: ast.comprehension) -> ast.AST:
    for n in ast.walk(root):
        if isinstance(n, (ast.ListComp, ast.SetComp, ast.GeneratorExp, ast.DictComp)) and comp in n.generators:
            return n
    return root


def _factory_site_ok(fn: FunctionInfo, call: ast.Call, tcv: Optional[ast.expr], idv: Optional[ast.expr], helper_params: Optional[dict] = None) -> Tuple[bool, str]:
    if tcv is None or idv is None:
        return False, "identifier or time component missing"
    if not isinstance(tcv, ast.Name):
        return False, f"time component is {ast.unparse(tcv)}, not the drawn operation"
    op = tcv.id
    params = set(fn.param_names)
    # op must be the operation parameter, or a comprehension / loop variable ranging over an operations parameter
    op_ok = op in params and op.startswith("operation")
    binders: Dict[str, ast.expr] = {}
    all_binders: Dict[str, List[ast.expr]] = {}
    for n in ast.walk(fn.node):
        if isinstance(n, ast.comprehension):
            for nm in _names(n.target):
                all_binders.setdefault(nm, []).append(n.iter)
                # the binder that encloses this call wins
                if any(c is call for c in ast.walk(_enclosing_comp(fn.node, n))):
                    binders[nm] = n.iter
        elif isinstance(n, ast.For):
            for nm in _names(n.target):
                all_binders.setdefault(nm, []).append(n.iter)
                if any(c is call for c in ast.walk(n)):
                    binders[nm] = n.iter
    if not op_ok and op in binders:
        src = binders[op]
        op_ok = isinstance(src, ast.Name) and src.id in params
    if not op_ok:
        return False, f"time component '{op}' is not the drawn operation"
    allowed_globals = {"ChannelIdentifier", "QubitChannel"}
    # local names bound once by a plain assignment are what they were assigned (``channel = ChannelIdentifier(_id=qubit_index, ..)``)
    assigned: Dict[str, List[ast.expr]] = {}
    for n in ast.walk(fn.node):
        if isinstance(n, (ast.Assign, ast.AnnAssign)) and n.value is not None:
            for t in (n.targets if isinstance(n, ast.Assign) else [n.target]):
                if isinstance(t, ast.Name):
                    assigned.setdefault(t.id, []).append(n.value)
    uses_op = [False]
    via_param = [False]

    def derived(e: ast.AST, depth: int = 0) -> Optional[str]:
        """None when every name in ``e`` comes from the drawn operation (or is an allowed global); otherwise the offending name"""
        for nm in sorted(_names(e)):
            if nm == op:
                uses_op[0] = True
                continue
            if nm in allowed_globals:
                continue
            if nm in binders and _names(binders[nm]) <= {op}:
                uses_op[0] = True
                continue
            if nm in assigned and len(assigned[nm]) == 1 and nm not in params and depth < 4:
                bad_ = derived(assigned[nm][0], depth + 1)
                if bad_ is None:
                    continue
                return bad_
            if nm in params and fn.cls is None and helper_params is not None:
                # a module-level positioning helper that is handed the qubit next to the operation: whether that qubit belongs to the operation is decided at its callers
                helper_params.setdefault(fn, set()).add(nm)
                via_param[0] = True
                continue
            return nm
        return None
    bad = derived(idv)
    if bad is not None:
        return False, f"identifier {ast.unparse(idv)} uses '{bad}', which is not derived from the drawn operation"
    if not uses_op[0] and not via_param[0]:
        return False, f"identifier {ast.unparse(idv)} does not come from the drawn operation"
    return True, ""


# ---------------------------------------------------------------------------------------------
def w3(model: Model, rep: Report):
    rep.rule("C18.W3", "reorder_indices(original, requested): raises iff some requested item is not in original; otherwise returns requested + [item for item in original if item not in requested]")
    f = model.function("display_circuit", "reorder_indices")
    ev = Evaluator(model, inline_methods=False)
    ps = PathEnumerator(ev).function_paths(f)
    orig, req = sym(f.param_names[0]), sym(f.param_names[1])
    raises = [p for p in ps if p.exit == "raise"]
    rets = [p for p in ps if p.exit == "return"]
    ok = len(raises) == 1 and len(rets) == 1
    if ok:
        c = raises[0].cond
        lx = [e for e in raises[0].events if e.kind == "loopexit"]
        if lx:
            # guard loop: for item in requested: if item not in original: raise
            lp = [e for e in raises[0].events if e.kind == "loop"][-1]
            bound = ("bound", "for", lp.node.lineno, show(lp.term))
            quiet = all(bp.exit in ("fall", "continue", "raise") and not [e for e in bp.events if e.kind in ("effect", "store", "aug")] for bp in lp.extra["paths"])
            ok = c == TRUE and len(lx) == 1 and lp.term == req and lx[0].term == t_not(("in", bound, orig)) and quiet \
                and len([bp for bp in lp.extra["paths"] if bp.exit == "raise"]) == 1
        else:
            ok = c[0] == "not" and c[1][0] == "quant" and c[1][1] == "all" and c[1][2][0] == "comp"
            if not ok and not (c[0] in ("not", "quant", "in", "and", "or") and subterms(c, lambda y: y[0] in ("quant", "in"))):
                # neither 'not all(x in original ...)' nor a guard loop: a membership test spelled in a way this rule does not read
                raise AnalysisError(f"reorder_indices: the rejection test [{show(c)[:120]}] is not read as a membership test over the requested items; nothing decided")
            if ok:
                comp = c[1][2]
                ok = len(comp[3]) == 1 and not comp[3][0][1] and comp[3][0][0] == req and comp[2][0] == "in" and comp[2][1][0] == "bound" and comp[2][2] == orig
    rep.check(ok, "C18.W3", "reorder_indices[rejects unknown]", f.loc, found=[show(p.cond) for p in raises], required="raise iff not all(item in original_order for item in specific_order)",
              what="an unknown channel in the requested order is not rejected (or a valid order is)", detail="reject")
    ok = bool(rets) and _prioritised(model, f, rets[0], orig, req, 0)
    if not ok and rets and rets[0].value is not None:
        v_ = rets[0].value
        while v_[0] == "var":
            v_ = v_[3]
        known_shape = v_[0] in ("concat", "lin", "list", "comp", "sym") or (v_[0] == "call" and isinstance(v_[1], tuple) and v_[1][0] == "fn")
        if v_[0] == "concat" and not all(x == req or x[0] in ("comp", "var", "list", "sym") for x in v_[1]):
            known_shape = False
        if not known_shape:
            raise AnalysisError(f"reorder_indices: the result [{show(v_)[:120]}] is not read as 'requested ++ filtered original'; nothing decided")
    rep.check(ok, "C18.W3", "reorder_indices[result]", f.loc, found=show(rets[0].value) if rets else None, required="specific_order + [item for item in original_order if item not in specific_order]",
              what="rows are not 'requested channels first, then the remaining ones in their original order'", detail="result")


def _prioritised(model: Model, fn: FunctionInfo, path: Path, orig: Term, req: Term, depth: int) -> bool:
    """The value returned on ``path`` of ``fn`` is  req ++ [x for x in orig if x not in req]  (directly, through a local accumulator, or through a
    module-level helper that is handed exactly (orig, req))."""
    from ..listflow import as_single_comp
    v = path.value
    if v is None:
        return False
    while v[0] == "var" and v[3][0] not in ("list", "comp"):
        v = v[3]
    if v[0] == "call" and isinstance(v[1], tuple) and v[1][0] == "fn" and depth < 2:
        try:
            g = model.function(v[1][1].rsplit(".", 1)[0], v[1][1].rsplit(".", 1)[1])
        except AnalysisError:
            return False
        names = g.param_names
        given = dict(zip(names, v[2]))
        given.update(dict(v[3]))
        inv = {val: k for k, val in given.items()}
        if set(given) != set(names[:2]) or orig not in inv or req not in inv:
            return False
        ps = [q for q in PathEnumerator(Evaluator(model, inline_methods=False)).function_paths(g) if q.exit != "raise"]
        return len(ps) == 1 and ps[0].exit == "return" and _prioritised(model, g, ps[0], sym(inv[orig]), sym(inv[req]), depth + 1)
    if v[0] == "var":
        v = v[3]
    if v[0] != "concat" or len(v[1]) != 2:
        return False
    left, right = v[1][0], as_single_comp(path, v[1][1])
    if left != req or right[0] != "comp":
        return False
    cp = right
    return cp[1] == "list" and len(cp[3]) == 1 and cp[3][0][0] == orig and cp[2][0] == "bound" and list(cp[3][0][1]) == [t_not(("in", cp[2], req))]


def w4(model: Model, rep: Report):
    rep.rule("C18.W4", "construct_visual_description: rows = reorder_indices(occupied channel ids, requested order); the label map handed to the description is "
                       "{row: given_map.get(channel, channel) for row, channel in enumerate(rows)}; states follow the rows; get_channel_header reads the label by ROW index")
    f = model.function("display_circuit", "construct_visual_description")
    ev = Evaluator(model, inline_methods=False)
    ps = PathEnumerator(ev).function_paths(f)
    circuit, order, cmap = (sym(p) for p in f.param_names[:3])
    n = 0
    for p in [q for q in ps if q.exit == "return"]:
        n += 1
        d = dict(p.value[2])
        rows = d.get("channel_indices")
        ok_rows = rows is not None and rows[0] == "call" and rows[1] == ("fn", "display_circuit.reorder_indices")
        if ok_rows:
            kw = dict(rows[3])
            o, sp = kw.get("original_order"), kw.get("specific_order")
            src = o
            ok_o = src is not None and src[0] == "call" and src[1] == ("fn", "array_manipulation.unique_in_order")
            if ok_o:
                it = dict(src[3]).get("iterable")
                ok_o = it is not None and it[0] == "comp" and it[3][0][0] == ("attr", circuit, "occupied_qubit_channels") and not it[3][0][1] and it[2][0] == "attr" and it[2][2] in ("id", "_id")
            ok_sp = sp is not None and _default_when_none(ev, p.cond, sp, order, lambda t: t == ("list", ()) or t == ("tuple", ()))
            ok_rows = ok_o and ok_sp
        rep.check(ok_rows, "C18.W4", "construct_visual_description[rows]", f.loc, found=show(rows) if rows else None, required="reorder_indices(unique occupied channel ids, requested order)", what="rows are not the occupied channels in the requested order", detail="rows")
        lm = d.get("channel_label_map")
        from ..listflow import as_single_comp, dict_as_comp
        if lm is not None and lm[0] == "var":
            filled = dict_as_comp(p, lm)
            lm = filled if filled is not lm else lm
        src = lm[3] if lm is not None and lm[0] == "var" else lm
        if src is not None and src[0] == "dictcomp":
            from ..extreme import fuse_comprehensions
            src = fuse_comprehensions(src)
        if src is not None and src[0] not in ("dictcomp", "dict", "sym", "attr"):
            raise AnalysisError(f"construct_visual_description: the label map [{show(src)[:120]}] is not written as a dict comprehension over the rows; nothing decided")
        ok_lm = src is not None and src[0] == "dictcomp" and len(src[3]) == 1 and not src[3][0][1] and src[3][0][0] == ("call", "enumerate", (rows,), ())
        if ok_lm:
            b = subterms(src[1], lambda y: y[0] == "bound")
            ok_lm = len(b) == 1 and src[1] == ("item", b[0], 0) and is_call_of(src[2], "get") and list(src[2][2]) == [("item", b[0], 1), ("item", b[0], 1)]
            # the table that is asked: the caller's map; when none was given, one whose .get(c, c) is c (empty, or identity over the channels)
            ok_lm = ok_lm and _default_when_none(ev, p.cond, src[2][1][1], cmap, _answers_identity)
        rep.check(ok_lm, "C18.W4", "construct_visual_description[label map keyed by row]", f.loc, found=show(lm) if lm else None, required="{row: custom_map.get(channel, channel) for row, channel in enumerate(rows)}",
                  what="labels are keyed by something else than the row they are read with", detail="label-writer")
        stt = d.get("channel_states")
        if stt is not None and stt[0] == "var":
            stt = as_single_comp(p, stt)
        src = stt[3] if stt is not None and stt[0] == "var" else stt
        ok_st = src is not None and src[0] == "comp" and src[3][0][0] == rows and not src[3][0][1] and is_call_of(src[2], "get_qubit_initial_state") and src[2][1][1] == circuit
        rep.check(ok_st, "C18.W4", "construct_visual_description[states follow rows]", f.loc, found=show(stt) if stt else None, required="[circuit.get_qubit_initial_state(c) for c in rows]", what="initial-state labels do not follow the row order", detail="states")
    rep.floor("return paths of construct_visual_description", n, 1)
    V = model.cls("VisualCircuitDescription")
    h = V.resolve("get_channel_header")
    ps = PathEnumerator(Evaluator(model, inline_methods=False)).function_paths(h, self_cls=V)
    s, idx = sym(h.self_name), sym(h.param_names[1])
    lmap = ("attr", s, "channel_label_map")
    has = ("in", idx, lmap)
    def by_case(t: Term, labelled: bool) -> Term:
        """``label_map.get(row, default)`` read per case: the entry when the row is labelled, the default otherwise; nested f-strings flattened"""
        if not isinstance(t, tuple) or not t:
            return t
        t = tuple(by_case(x, labelled) if isinstance(x, tuple) else x for x in t)
        if t[0] == "var" and len(t) == 4 and t[3][0] not in ("list", "dict", "comp"):
            return t[3]
        if is_call_of(t, "get") and t[1][1] == lmap and len(list(t[2]) + list(t[3])) == 2 and (list(t[2]) + [x for _, x in t[3]])[0] == idx:
            return ("sub", lmap, idx) if labelled else (list(t[2]) + [x for _, x in t[3]])[1]
        if t[0] == "fstr":
            parts = []
            for x in t[1]:
                parts.extend(x[1] if isinstance(x, tuple) and x and x[0] == "fstr" else [x])
            return ("fstr", tuple(parts))
        return t

    for case, mp in (("labelled", {has: TRUE}), ("unlabelled", {has: FALSE})):
        hit = [p for p in ps if p.exit == "return" and subst(p.cond, mp) == TRUE]
        ok = len(hit) == 1
        if ok:
            d = dict(hit[0].value[2])
            nm = d.get("channel_name")
            nm = by_case(nm, case == "labelled") if nm is not None else None
            if case == "labelled":
                ok = nm == ("fstr", (("sub", lmap, idx),))
            else:
                ok = nm is not None and nm[0] == "fstr" and ("sub", ("attr", s, "channel_indices"), idx) in nm[1]
            sd = d.get("state_description")
            ok = ok and sd is not None and subterms(sd, lambda y: y == ("sub", ("attr", s, "channel_states"), idx))
        rep.check(ok, "C18.W4", f"VisualCircuitDescription.get_channel_header[{case}]", h.loc, found=[show(dict(p.value[2]).get("channel_name")) for p in hit] if hit else [show(p.cond) for p in ps],
                  required="label_map[row] when the ROW is labelled, else '# <channel of the row>'; state of the row", what="the header of a row shows another row's label", detail=f"label-reader:{case}")


def _answers_identity(t: Term) -> bool:
    """a table T with T.get(c, c) == c for every c: the empty dict or an identity comprehension"""
    if t == ("dict", ()):
        return True
    if t[0] == "dictcomp":
        if t[1] == t[2] and t[1][0] == "bound":
            return True
        # ``dict(zip(xs, xs))``: every key is its own value
        if len(t[3]) == 1 and not t[3][0][1] and t[3][0][0][0] == "call" and t[3][0][0][1] == "zip" and len(t[3][0][0][2]) == 2 \
                and t[3][0][0][2][0] == t[3][0][0][2][1] and t[1][0] == "item" and t[2][0] == "item" and t[1][1] == t[2][1] and {t[1][2], t[2][2]} == {0, 1}:
            return True
    return False


def _default_when_none(ev: Evaluator, cond: Term, value: Term, param: Term, is_default) -> bool:
    """``value`` is ``param`` whenever param is not None and a default (per ``is_default``) whenever it is None; decided per alternative of a
    conditional value under the path condition."""
    from .c01 import _alternatives, _implies
    from ..sym import t_cmp
    none = t_cmp("is", param, NONE)
    while value[0] == "var":
        value = value[3]
    for alt, c in _alternatives(value, cond):
        while alt[0] == "var":
            alt = alt[3]
        if alt == param:
            # using the caller's value is right exactly where it is known not to be None (a None would be passed on)
            if not _implies(ev, c, t_not(none)):
                return False
        elif is_default(alt):
            if not _implies(ev, c, none):
                return False
        else:
            return False
    return True


# ---------------------------------------------------------------------------------------------
def w5(model: Model, rep: Report):
    rep.rule("C18.W5", "plot_circuit: in compact mode the description is constructed and drawn inside `with temporary_override_get_registry_at(VISUALIZATION_DURATION_REGISTRY)`; "
                       "that context manager invalidates every memo on entry and exit and restores the entry value (C03.H1/H3); the drawing entry points write no circuit state (C03.H2); "
                       "the drawing's duration table covers all four duration keys")
    f = model.function("display_circuit", "plot_circuit")
    ev = Evaluator(model, inline_methods=False)
    ps = PathEnumerator(ev).function_paths(f)
    compact = sym("compact_visualization")
    n = 0
    for p in [q for q in ps if q.exit == "return"]:
        n += 1
        is_compact = subst(p.cond, {compact: TRUE}) == TRUE
        withs = [(i, e) for i, e in enumerate(p.events) if e.kind == "with" and e.term is not None and "temporary_override_get_registry_at" in show(e.term)]
        ends = [i for i, e in enumerate(p.events) if e.kind == "endwith"]
        draws = [i for i, e in enumerate(p.events) if e.kind in ("assign", "effect") and e.term is not None and ("construct_visual_description" in show(e.term) or "plot_circuit_description" in show(e.term))]
        if is_compact:
            ok = len(withs) == 1 and draws and all(withs[0][0] < i for i in draws) and ends and all(i < max(ends) for i in draws)
            arg = None
            if withs:
                t = withs[0][1].term
                if t[0] == "call" and len(t) >= 4:
                    arg = (list(t[2]) + [v for _, v in t[3]] + [None])[0]
                elif t[0] == "new":
                    arg = ([v for _, v in t[2]] + [None])[0]
                from .common import devar as _devar
                if arg is not None:
                    arg = _devar(arg)
                if arg is None or arg[0] != "dict":
                    ds = subterms(_devar(t), lambda y: y[0] == "dict")
                    arg = ds[0] if ds else arg
            reg_ok = arg is not None and arg[0] == "dict" and {k[2] for k, _ in arg[1] if k[0] == "enum"} == {"READOUT", "MICROWAVE", "FLUX", "RESET"}
            rep.check(ok, "C18.W5", "plot_circuit[compact inside override]", f.loc, found=f"{len(withs)} override block(s); drawing at events {draws}", required="construct + draw inside the override block",
                      what="compact drawing computes positions outside the scoped duration override (or leaves the override installed)", detail="scoped")
            rep.check(reg_ok, "C18.W5", "VISUALIZATION_DURATION_REGISTRY", f.loc, found=show(arg) if arg else None, required="all of READOUT, MICROWAVE, FLUX, RESET", what="a duration class has no compact value (duration None while drawing)", detail="registry")
        else:
            rep.check(not withs and len(draws) >= 1, "C18.W5", "plot_circuit[non-compact]", f.loc, found=f"{len(withs)} override blocks", required="no override", what="non-compact drawing changes the global durations", detail="non-compact")
        v = p.value
        rep.check(draws != [], "C18.W5", "plot_circuit[draws the given circuit]", f.loc, found=len(draws), required="construct_visual_description(circuit=circuit, ...)", what="nothing drawn", detail="draws")
    rep.floor("return paths of plot_circuit", n, 2)
    # shared memo / override / observer rules
    from .c03 import h1, h2, h3
    cg = CallGraph(model)
    share_rule(rep, model, lambda m, r: h1(m, r, cg, Effects(m, cg)), "C18.W5", "")
    share_rule(rep, model, h3, "C18.W5", "")
    share_rule(rep, model, lambda m, r: h2(m, r, cg, Effects(m, cg)), "C18.W5", "")
    rep.rules_text["C18.W5"] = ("plot_circuit: compact drawing runs inside the temporary duration override whose enter / exit invalidate every memo (C03.H1) and restore the entry value (C03.H3); "
                                "observers incl. plot_circuit write no circuit state (C03.H2)")
