"""C17 -- declared and derived gate-sequence layouts are executable.

Y1-Y5 (tables evaluated from their literals): for Repetition9Code, Repetition9Round6Code, Repetition5Round4Code on the Surface-17
      tables: every gate is a device edge; qubits of a layer's gates are pairwise distinct; no qubit is parked and gated in a layer;
      every qubit that REQUIRES parking -- by the checker's own predicate over the extracted edge / frequency tables -- is parked;
      over one sequence each ancilla-data edge of each parity group occurs exactly once and nothing else; parity-group edges are
      device edges; feedlines partition the qubits.
Y6    derivation (from_connectivity): gates kept iff ALL their qubits are involved (whole gate list, whole qubit pair); parking
      recomputed from the kept gates over all device qubits; default index map from enumerate(involved qubits); the generic layer
      delegates its device queries to the Surface-17 layer.
Y7    exclusions (CompositeRepetitionCodeDescription.gate_sequences) only remove gates; required-only parking is computed from
      the gates that remain.
Y8    order-independent edge identity (= C19.I2).
"""
from __future__ import annotations

import ast
from collections import Counter
from typing import Dict, List, Optional, Set, Tuple

from ..model import AnalysisError, ClassInfo, Model
from ..paths import Path, PathEnumerator, find_calls
from ..report import Report
from ..sym import FALSE, NONE, TRUE, Evaluator, Frame, Term, Unsupported, atoms_of, show, subst, subterms, sym, t_not
from .c16 import ORDER, _qid, surface_tables
from .common import is_call_of, loop_of, share_rule

LAYOUTS = ("Repetition9Code", "Repetition9Round6Code", "Repetition5Round4Code")


def check(model: Model, rep: Report, tier: str):
    with rep.isolated():
        y_tables(model, rep)
    with rep.isolated():
        y6(model, rep)
    with rep.isolated():
        y7(model, rep)
    from .c19 import _i2
    with rep.isolated():
        share_rule(rep, model, _i2, "C17.Y8", "gates of the layouts and of the device are matched as unordered qubit pairs: EdgeIDObj equality / hash do not depend on the order of the two qubits (= C19.I2)")
    from .c19 import _i3
    with rep.isolated():
        share_rule(rep, model, _i3, "C17.Y8", "qubits of layouts, devices and user requests are matched by name: QubitIDObj equality is equality of the names (= C19.I3)")
    # derived descriptions do not carry parks in a table: they ASK get_requires_parking at run time -- its skeleton is part of this property
    from .c16 import q1, q2, q3, q4_q5, q9
    txt = ("the parks of a derived description are computed by get_requires_parking over the kept gates: that function has the skeleton 'neighbours a gate and takes part in none "
           "(both over ALL gates, complete before any gate can demand parking) and some involved neighbour is higher and on the moving side of its gate' (= C16.Q4), written in "
           "the frequency order (= C16.Q1), the moving side (= C16.Q3) and the device primitives (= C16.Q9); the checker's own predicate of Y4 is this skeleton")
    for fn, only in ((q1, {"C16.Q1"}), (q2, {"C16.Q2"}), (q3, {"C16.Q3"}), (q4_q5, {"C16.Q4"}), (q9, {"C16.Q9"})):
        with rep.isolated():
            share_rule(rep, model, fn, "C17.Y9", txt, only_rules=only)
    from .c16 import q11
    with rep.isolated():
        share_rule(rep, model, q11, "C17.Y9", "")
    with rep.isolated():
        y10(model, rep)
    with rep.isolated():
        y12(model, rep)
    from .c09 import p6
    with rep.isolated():
        share_rule(rep, model, p6, "C17.Y13", "what the circuit builders are told about a layer is the layer: get_gate_sequence_indices / get_park_sequence_indices / "
                   "get_active_ancilla_indices list every gate and every park (on a qubit of the code) of layer i, each mapped through the identifier -> index map (= C09.P6)")
    from .c03 import h6
    from ..resolve import CallGraph
    with rep.isolated():
        h6(model, rep, CallGraph(model), keep=lambda h: "repetition_code" in h.loc or "connectivity" in h.loc, rule="C17.Y11")


def y12(model: Model, rep: Report):
    """The qubit listing of a description is exactly its data and ancilla qubits."""
    rep.rule("C17.Y12", "RepetitionCodeDescription.qubit_ids lists every data qubit and every ancilla qubit exactly once, whichever of the two lists is longer: decided by "
                        "interpreting the accessor's own statements on lists of opaque symbols for all length pairs up to 4 x 4 (index map; qcolint.listinterp) -- the "
                        "identifier <-> circuit index map and the parking look-up are built from this listing")
    from ..listinterp import ListInterp, Sym
    K = model.cls("RepetitionCodeDescription")
    f = K.resolve("qubit_ids")
    if f is None:
        raise AnalysisError("RepetitionCodeDescription.qubit_ids vanished")
    # the stored lists behind the two accessors
    names = {}
    for acc, kind in (("data_qubit_ids", "d"), ("ancilla_qubit_ids", "a")):
        names[acc] = kind
        g = K.resolve(acc)
        if g is not None and g.kind == "property":
            try:
                v = Evaluator(model, inline_methods=False).value_of(g, self_cls=K)
            except Unsupported:
                v = None
            if v is not None and v[0] == "attr" and v[1] == sym(g.self_name):
                names[v[2]] = kind
    # functions of the package the accessor calls by plain name (a helper its statements moved into): interpreted with it
    from ..model import FunctionInfo as _FI
    helpers = {}
    for nd_ in ast.walk(f.node):
        if isinstance(nd_, ast.Call) and isinstance(nd_.func, ast.Name):
            tg_ = model.lookup_symbol(f.module, nd_.func.id)
            if isinstance(tg_, _FI) and tg_.kind == "function":
                helpers[nd_.func.id] = tg_.node
    bad = None
    n = 0
    try:
        for nd in range(0, 5):
            for na in range(0, 5):
                data = [Sym(f"d{i}") for i in range(nd)]
                anc = [Sym(f"a{i}") for i in range(na)]
                attrs = {nm: (list(data) if k == "d" else list(anc)) for nm, k in names.items()}
                out = ListInterp(attrs, self_name=f.self_name, functions=helpers).run(f.node)
                n += 1
                if not isinstance(out, (list, tuple)):
                    bad = bad or f"{nd} data / {na} ancilla qubits: the accessor returns {type(out).__name__}"
                    continue
                got = sorted(map(str, out))
                want = sorted(map(str, data + anc))
                if got != want and bad is None:
                    missing = [x for x in want if x not in got]
                    extra = [x for x in got if got.count(x) > want.count(x)]
                    bad = f"{nd} data / {na} ancilla qubits: lists {list(map(str, out))}" + (f", missing {missing}" if missing else "") + (f", repeated {sorted(set(extra))}" if extra else "")
    except Unsupported as e:
        raise AnalysisError(f"RepetitionCodeDescription.qubit_ids is outside the list fragment the index-map interpreter reads ({e})")
    except (ValueError, IndexError, TypeError) as e:
        bad = bad or f"raises {type(e).__name__}: {e} for some length pair"
    rep.check(bad is None, "C17.Y12", "RepetitionCodeDescription.qubit_ids", f.loc, found=bad or f"all data and ancilla qubits, once each, on {n} length pairs (symbolic elements)",
              required="every data and every ancilla qubit exactly once", what="the description's qubit listing is not exactly its qubits: a qubit that is gated or parked has no "
              "circuit index (the identifier <-> index map is not a bijection onto the involved qubits): " + (bad or ""), detail="listing")


def y10(model: Model, rep: Report):
    """The number of layers a consumer walks is the number of layers there are."""
    rep.rule("C17.Y10", "gate_sequence_count == len(the layer list that the positional accessors get_gate_sequence_indices / get_park_sequence_indices / "
                        "get_gate_sequence_at_index subscript): every consumer walks `range(gate_sequence_count)`, so a count that skips placeholder layers "
                        "leaves trailing gates unexercised")
    impls = [f for f in model.all_functions() if f.name == "gate_sequence_count" and f.cls is not None and "abstractmethod" not in f.decorators]
    rep.floor("gate_sequence_count implementations", len(impls), 2)

    def canon(K, name):
        """follow trivial property ``return self._x``"""
        seen = set()
        while name not in seen:
            seen.add(name)
            g = K.resolve(name)
            if g is None or g.kind != "property":
                break
            try:
                v = Evaluator(model, inline_methods=False).value_of(g, self_cls=K)
            except Unsupported:
                break
            if v is not None and v[0] == "attr" and v[1] == sym(g.self_name):
                name = v[2]
            else:
                break
        return name
    for f in impls:
        K = f.cls
        try:
            v = Evaluator(model, inline_methods=False).value_of(f, self_cls=K)
        except Unsupported as e:
            raise AnalysisError(f"{f.qualname}: value not derived ({e})")
        s = sym(f.self_name)
        ok = v is not None and v[0] == "call" and v[1] == "len" and len(v[2]) == 1 and v[2][0][0] == "attr" and v[2][0][1] == s
        cont = canon(K, v[2][0][2]) if ok else None
        indexed = set()
        for sub in [K] + model.subclasses(K):
            for an in ("get_gate_sequence_indices", "get_park_sequence_indices", "get_gate_sequence_at_index"):
                g = sub.resolve(an)
                if g is None or "abstractmethod" in g.decorators:
                    continue
                prm = [p for p in g.param_names if p != g.self_name]
                from ..alias import _bindings
                from ..model import is_helper_name

                def scan(h, index_params, depth=0):
                    for n in ast.walk(h.node):
                        if isinstance(n, ast.Subscript) and isinstance(n.slice, ast.Name) and n.slice.id in index_params:
                            base = n.value
                            if isinstance(base, ast.Name):
                                bs = _bindings(h.node, base.id)
                                if len(bs) == 1 and bs[0] is not None:
                                    base = bs[0]
                            if isinstance(base, ast.Attribute) and isinstance(base.value, ast.Name) and base.value.id == h.self_name:
                                indexed.add(canon(h.cls, base.attr))
                        # the lookup moved into a helper of the class: follow the index argument
                        if depth < 2 and isinstance(n, ast.Call) and isinstance(n.func, ast.Attribute) and isinstance(n.func.value, ast.Name) and n.func.value.id == h.self_name \
                                and is_helper_name(n.func.attr):
                            for hh in sub.resolve_all(n.func.attr):
                                hp = [q for q in hh.param_names if q != hh.self_name]
                                passed = []
                                for i_, a_ in enumerate(n.args):
                                    if isinstance(a_, ast.Name) and a_.id in index_params and i_ < len(hp):
                                        passed.append(hp[i_])
                                for k_ in n.keywords:
                                    if isinstance(k_.value, ast.Name) and k_.value.id in index_params and k_.arg in hp:
                                        passed.append(k_.arg)
                                if passed:
                                    scan(hh, passed, depth + 1)
                scan(g, prm)
        if not indexed:
            raise AnalysisError(f"{K.name}: no positional accessor subscripts a layer list (shape not recognised)")
        rep.check(ok and indexed == {cont}, "C17.Y10", f.qualname, f.loc, found=show(v) if v is not None else "no single value", required=f"len(self.{sorted(indexed)[0]})",
                  what=f"consumers walk range(gate_sequence_count) but the positional accessors index {sorted(indexed)}: layers beyond the reported count are never "
                       "constructed (their gates are exercised 0 times), or the walk runs past the list", detail="count")


# ---------------------------------------------------------------------------------------------
def layout_tables(model: Model, cname: str):
    C = model.cls(cname)
    init = C.own_function("__init__")
    if init is None:
        raise AnalysisError(f"{cname}.__init__ not found")
    calls = [n for n in ast.walk(init.node) if isinstance(n, ast.Call) and isinstance(n.func, ast.Attribute) and n.func.attr == "__init__"]
    if len(calls) != 1:
        raise AnalysisError(f"{cname}: super().__init__(...) literal not found")
    kw = {k.arg: k.value for k in calls[0].keywords}
    ev = Evaluator(model)
    fr = Frame(None, C.module, {}, C, 0)
    layers = []
    gs = ev.expr(kw["gate_sequences"], fr)
    if gs[0] != "list":
        raise AnalysisError(f"{cname}: gate_sequences is not a list literal")
    gnode = kw["gate_sequences"]
    nodes = list(gnode.elts) if isinstance(gnode, ast.List) and len(gnode.elts) == len(gs[1]) else [gnode] * len(gs[1])
    for node, lay in zip(nodes, gs[1]):
        if lay[0] != "new" or lay[1] != "GateSequenceLayer":
            raise AnalysisError(f"{cname}: layer literal not recognised: {show(lay)}")
        d = dict(lay[2])
        parks, gates = [], []
        for p in d.get("_park_operations", ("list", ()))[1]:
            q = _op_identifier(p, "park")
            parks.append(_qid(q) if q is not None else None)
        for g in d.get("_gate_operations", ("list", ()))[1]:
            e = _op_identifier(g, "gate")
            if e is None or e[0] != "new" or e[1] != "EdgeIDObj":
                raise AnalysisError(f"{cname}: gate literal not recognised: {show(g)}")
            ed = dict(e[2])
            gates.append((_qid(ed.get("qubit_id0")), _qid(ed.get("qubit_id1"))))
        layers.append(dict(parks=parks, gates=gates, line=node.lineno))
    groups = []
    for key in ("parity_group_z", "parity_group_x"):
        v = ev.expr(kw[key], fr)
        for g in v[1]:
            d = dict(g[2])
            groups.append((_qid(d.get("_ancilla_qubit")), [_qid(x) for x in d.get("_data_qubits")[1]]))
    return C, layers, groups


def _op_identifier(t: Term, kind: str) -> Optional[Term]:
    """Operation.type_park(q) / type_gate(e) are inlined by the evaluator to Operation(...) constructions; accept both forms."""
    if t[0] == "new" and t[1] == "Operation":
        d = dict(t[2])
        tp = d.get("_type") or d.get("type") or d.get("operation_type")
        ident = d.get("identifier") or d.get("_identifier")
        if ident is None:
            for k, v in d.items():
                if v[0] == "new":
                    ident = v
        return ident
    if t[0] == "call" and t[1] == ("fn", f"Operation.type_{kind}"):
        vals = list(t[2]) + [v for _, v in t[3]]
        return vals[0] if vals else None
    return None


def requires_parking(q: str, gates: List[Tuple[str, str]], edges: Set[frozenset], groups: Dict[str, str]) -> bool:
    """The checker's own statement-level predicate (DESIGN C16.Q4), independent of the repository's function."""
    nb = lambda x: {y for e in edges if x in e for y in e if y != x}
    gated = {x for g in gates for x in g}
    if q in gated:
        return False
    if not (nb(q) & gated):
        return False
    for g in gates:
        for n, partner in ((g[0], g[1]), (g[1], g[0])):
            if n in nb(q) and ORDER[groups[n]] > ORDER[groups[q]] and ORDER[groups[n]] > ORDER[groups[partner]]:
                return True
    return False


def y_tables(model: Model, rep: Report):
    rep.rule("C17.Y1", "every gate of every layer of the shipped layouts is an edge of the Surface-17 device (unordered)")
    rep.rule("C17.Y2", "the qubits of the gates of one layer are pairwise distinct")
    rep.rule("C17.Y3", "no qubit is parked and gated in one layer; parked qubits are device qubits; no duplicate parks")
    rep.rule("C17.Y4", "every qubit that requires parking for the gates of a layer (checker's own predicate over the extracted device edges and frequency groups) is parked in that layer")
    rep.rule("C17.Y5", "over one full sequence each ancilla-data edge of each parity group is exercised exactly once and no other gate occurs; parity-group edges are device edges; "
                       "the feedlines partition the 17 qubits")
    st = surface_tables(model)
    dev_edges = {frozenset(e) for e in st["edges"]}
    groups = st["groups"]
    qubits = set(st["qubits"])
    # feedlines partition
    allq = [q for qs in st["feedlines"].values() for q in qs]
    rep.check(len(allq) == len(set(allq)) == 17, "C17.Y5", "Surface17Layer[feedlines partition]", st["loc"], found=f"{len(allq)} entries, {len(set(allq))} distinct", required="17 qubits, each on exactly one feedline",
              what="a qubit sits on two feedlines or on none", detail="feedlines")
    bad_pg = [(a, d) for _, a, ds in st["parity_groups"] for d in ds if frozenset((a, d)) not in dev_edges]
    rep.check(not bad_pg, "C17.Y5", "Surface17Layer[parity edges]", st["loc"], found=bad_pg or "all ancilla-data pairs are device edges", required="parity-group pairs are device edges", what="a parity group pairs qubits that are not connected", detail="surface-parity")
    n_layers = 0
    n_gates = 0
    for cname in LAYOUTS:
        C, layers, pgs = layout_tables(model, cname)
        loc = lambda lay: f"{C.module.relpath}:{lay['line']}"
        n_layers += len(layers)
        for i, lay in enumerate(layers):
            g = lay["gates"]
            n_gates += len(g)
            name = f"{cname}[layer {i}]"
            bad = [e for e in g if frozenset(e) not in dev_edges]
            rep.check(not bad, "C17.Y1", name + "[gates are device edges]", loc(lay), found=bad or f"{len(g)} gates, all device edges", required="device edges", what=f"gate {bad[:1]} is not an edge of the device", detail=f"edge:{cname}:{i}")
            qs = [x for e in g for x in e]
            dup = [q for q, c in Counter(qs).items() if c > 1]
            rep.check(not dup, "C17.Y2", name + "[distinct qubits]", loc(lay), found=dup or "distinct", required="no qubit in two gates of a layer", what=f"qubit {dup[:1]} takes part in two simultaneous gates", detail=f"distinct:{cname}:{i}")
            both = sorted(set(qs) & set(lay["parks"]))
            unknown = [p for p in lay["parks"] if p not in qubits]
            dupp = [q for q, c in Counter(lay["parks"]).items() if c > 1]
            rep.check(not both and not unknown and not dupp, "C17.Y3", name + "[park vs gate]", loc(lay), found=f"parked and gated: {both}; unknown: {unknown}; duplicate parks: {dupp}", required="disjoint, known, unique",
                      what="a qubit is parked while it performs a gate (or an unknown qubit is parked)", detail=f"park-gate:{cname}:{i}")
            if not bad:
                need = sorted(q for q in qubits if requires_parking(q, g, dev_edges, groups))
                missing = [q for q in need if q not in lay["parks"]]
                rep.check(not missing, "C17.Y4", name + "[required parks]", loc(lay), found=f"required {need}; parked {sorted(lay['parks'])}; missing {missing}", required="all required qubits parked",
                          what=f"qubit(s) {missing} neighbour the moving side of an active gate at their own idle level and are not parked", detail=f"required:{cname}:{i}")
        want = Counter(frozenset((a, d)) for a, ds in pgs for d in ds)
        got = Counter(frozenset(e) for lay in layers for e in lay["gates"])
        missing = [tuple(sorted(k)) for k in want if got[k] == 0]
        twice = [tuple(sorted(k)) for k, c in got.items() if c > 1]
        extra = [tuple(sorted(k)) for k in got if k not in want]
        rep.check(not missing and not twice and not extra, "C17.Y5", f"{cname}[each parity edge once]", C.loc, found=f"missing {missing}; repeated {twice}; not in any parity group {extra}", required="every ancilla-data edge of every parity group exactly once",
                  what="the sequence does not exercise each stabiliser edge exactly once", detail=f"coverage:{cname}")
        badpg = [(a, d) for a, ds in pgs for d in ds if frozenset((a, d)) not in dev_edges]
        rep.check(not badpg, "C17.Y5", f"{cname}[parity edges on device]", C.loc, found=badpg or "all on device", required="device edges", what="a parity group pairs unconnected qubits", detail=f"parity-edges:{cname}")
    rep.floor("layout layers", n_layers, 18)
    rep.floor("layout gates", n_gates, 40)
    rep.analysed["C17 layers"] = n_layers
    rep.analysed["C17 gates"] = n_gates
    # the generic layer answers device queries with the Surface-17 tables
    G = model.cls("GenericSurfaceCode")
    for name in ("qubit_ids", "edge_ids", "feedline_ids"):
        f = G.resolve(name)
        v = Evaluator(model, inline_methods=False).value_of(f, self_cls=G)
        want = ("attr", ("new", "Surface17Layer", ()), name)
        alt = ("attr", ("call", ("cls", "Surface17Layer"), (), ()), name)
        ok = v in (want, alt) or show(v) == f"Surface17Layer().{name}"
        rep.check(ok, "C17.Y4", f"GenericSurfaceCode.{name}", f.loc, found=show(v), required=f"Surface17Layer().{name}", what="parking candidates / device edges of a layout are not those of the whole device", detail=f"delegate:{name}")
    for name, args in (("get_neighbors", ("qubit", "order")), ("get_edges", ("qubit",)), ("get_frequency_group_identifier", ("element",))):
        f = G.resolve(name)
        v = Evaluator(model, inline_methods=False).value_of(f, self_cls=G)
        ok = v[0] == "call" and isinstance(v[1], tuple) and v[1][0] == "attr" and v[1][2] == name and "Surface17Layer" in show(v[1][1]) and dict(v[3]) == {a: sym(a) for a in args}
        rep.check(ok, "C17.Y4", f"GenericSurfaceCode.{name}", f.loc, found=show(v), required=f"Surface17Layer().{name}(...) with its own arguments", what="a layout answers device queries differently from the device", detail=f"delegate:{name}")


# ---------------------------------------------------------------------------------------------
def y6(model: Model, rep: Report):
    rep.rule("C17.Y6", "RepetitionCodeDescription.from_connectivity: per layer (all layers), keep a gate iff ALL qubits of its edge (the whole qubit_ids) are involved, over the whole "
                       "gate list; recompute parking with get_requires_parking over all connectivity.qubit_ids from the kept gates; the default index map is "
                       "{qubit: i for i, qubit in enumerate(involved_qubit_ids)}; data / ancilla lists are the involved qubits that the layout knows as data / ancilla")
    R = model.cls("RepetitionCodeDescription")
    f = R.resolve("from_connectivity")
    ev = Evaluator(model, inline_methods=False)
    pe = PathEnumerator(ev)
    pe.loop_view = True
    ps = pe.function_paths(f, self_cls=R)
    inv, con, imap, refocus = (sym(p) for p in f.param_names[1:5])
    construct = "RepetitionCodeDescription.from_connectivity"
    n = 0
    for p in [q for q in ps if q.exit == "return"]:
        n += 1
        lp = loop_of(p)
        if lp is None:
            raise AnalysisError(f"{construct}: no layer loop")
        rep.check(lp.term == ("call", "range", (("attr", con, "gate_sequence_count"),), ()), "C17.Y6", construct + "[all layers]", f.loc, found=show(lp.term), required="range(connectivity.gate_sequence_count)", what="not every layer is derived", detail="layers")
        i = ("bound", "for", lp.node.lineno, show(lp.term))
        layer = ("call", ("attr", con, "get_gate_sequence_at_index"), (), (("index", i),))
        bad: List[str] = []
        for bp in lp.extra["paths"]:
            gates = None
            parks = None
            for e in bp.events:
                if e.kind == "assign" and e.term is not None and e.term[0] == "var":
                    src = e.term[3]
                    if src[0] == "comp" and len(src[3]) == 1 and strip_gate_ops(src[3][0][0], layer):
                        gates = e.term
                    if src[0] == "comp" and "get_requires_parking" in show(src):
                        parks = e.term
            if gates is None:
                bad.append("gate filter not found")
                continue
            comp = gates[3]
            conds = comp[3][0][1]
            elt = comp[2]
            okf = len(conds) == 1 and elt[0] == "bound"
            if okf:
                c = conds[0]
                # all([q in involved for q in element.identifier.qubit_ids])
                inner = None
                if c[0] == "quant" and c[1] == "all" and c[2][0] == "comp":
                    inner = c[2]
                if inner is None or len(inner[3]) != 1 or inner[3][0][1]:
                    okf = False
                    bad.append(f"gate filter is {show(c)} (not a universal test)")
                else:
                    it = inner[3][0][0]
                    ie = inner[2]
                    if it != ("attr", ("attr", elt, "identifier"), "qubit_ids"):
                        okf = False
                        bad.append(f"the filter tests only {show(it)} of the gate")
                    if not (ie[0] == "in" and ie[1][0] == "bound" and ie[2] == inv):
                        okf = False
                        bad.append(f"the filter tests membership in {show(ie[2]) if ie[0] == 'in' else show(ie)} instead of the involved qubits")
            elif not bad:
                bad.append("gates are kept unfiltered or by several filters")
            # parking recomputed from kept gates
            if parks is None:
                bad.append("parking is not recomputed for the kept gates")
            else:
                pc = parks[3]
                pit, pconds = pc[3][0]
                if pit != ("attr", con, "qubit_ids"):
                    bad.append(f"parking candidates are {show(pit)} instead of all device qubits")
                rp = [c for c in pconds for _ in [0] if "get_requires_parking" in show(c)]
                ok_rp = False
                if len(pconds) == 1 and pconds[0][0] == "call":
                    kw = dict(pconds[0][3])
                    eids = kw.get("edge_ids")
                    src = eids[3] if eids is not None and eids[0] == "var" else eids
                    ok_rp = src is not None and src[0] == "comp" and src[3][0][0] == gates and not src[3][0][1] and src[2][0] == "attr" and src[2][2] == "identifier" and kw.get("connectivity") == con and kw.get("element", NONE)[0] == "bound"
                if not ok_rp:
                    bad.append("required parking is not evaluated on the identifiers of exactly the kept gates")
                pe = pc[2]
                if not (pe[0] == "call" and pe[1] == ("fn", "Operation.type_park") or (pe[0] == "new" and pe[1] == "Operation")):
                    bad.append("parking entries are not park operations")
            # the new layer carries exactly these
            layers_new = [c for e in bp.events if e.kind in ("assign", "effect") and e.term is not None for c in subterms(e.term, lambda y: y[0] == "new" and y[1] == "GateSequenceLayer")]
            if layers_new:
                d = dict(layers_new[0][2])
                if d.get("_gate_operations") != gates or (parks is not None and d.get("_park_operations") != parks):
                    bad.append("the derived layer is not built from the kept gates and the recomputed parks")
            apps = [c for e in bp.events if e.kind == "effect" for c in find_calls(e.term, "append")]
            if len(apps) != 1:
                bad.append(f"{len(apps)} layers appended per source layer")
        rep.check(not bad, "C17.Y6", construct + "[filter+parking]", f.loc, found="; ".join(sorted(set(bad))) or "all(q in involved for q in edge.qubit_ids); parks from kept gates over all device qubits",
                  required="keep exactly the gates whose both qubits are involved; park what those gates require", what="a derived description keeps a gate with an uninvolved qubit or parks for the wrong gates: " + "; ".join(sorted(set(bad))),
                  detail="filter")
        v = p.value
        if v is None or v[0] != "new" or v[1] != "RepetitionCodeDescription":
            raise AnalysisError(f"{construct}: result not recognised")
        d = dict(v[2])
        m = d.get("_qubit_index_map")
        ok_m = False
        alts = [m] if m is None or m[0] != "ite" else [m[2], m[3]]
        for a in alts:
            if a == imap:
                ok_m = True if len(alts) == 1 else ok_m
            src = a[3] if a is not None and a[0] == "var" else a
            if src is not None and src[0] == "dictcomp" and len(src[3]) == 1 and not src[3][0][1]:
                it = src[3][0][0]
                b = subterms(src[1], lambda y: y[0] == "bound")
                ok_m = it == ("call", "enumerate", (inv,), ()) and len(b) == 1 and src[1] == ("item", b[0], 1) and src[2] == ("item", b[0], 0)
        # default map only when none is given
        given_path = subst(p.cond, {("eq", NONE, imap): FALSE}) == TRUE if ("eq", NONE, imap) in atoms_of(p.cond) else False
        if given_path:
            ok_m = m == imap
        rep.check(ok_m, "C17.Y6", construct + "[index map]", f.loc, found=show(m) if m else None, required="{qubit_id: i for i, qubit_id in enumerate(involved_qubit_ids)} unless a map is given",
                  what="qubit identifiers are not mapped to circuit indices bijectively (injective by construction via enumerate)", detail="index-map")
        for fld, src_attr in (("_data_qubit_ids", "data_qubit_ids"), ("_ancilla_qubit_ids", "ancilla_qubit_ids")):
            val = d.get(fld)
            src = val[3] if val is not None and val[0] == "var" else val
            ok = src is not None and src[0] == "comp" and src[3][0][0] == inv and len(src[3][0][1]) == 1 and src[3][0][1][0][0] == "in" and src[3][0][1][0][2] == ("attr", con, src_attr) and src[2][0] == "bound"
            rep.check(ok, "C17.Y6", construct + f"[{fld}]", f.loc, found=show(val) if val else None, required=f"[q for q in involved_qubit_ids if q in connectivity.{src_attr}]", what="data / ancilla roles of involved qubits are not those of the layout", detail=fld)
        rep.check(d.get("_qubit_refocusing") == refocus, "C17.Y6", construct + "[refocusing flag]", f.loc, found=show(d.get("_qubit_refocusing")) if d.get("_qubit_refocusing") else "not passed", required=show(refocus), what="the refocusing option is dropped", detail="refocus")
        rep.check(d.get("_gate_sequences") is not None and d.get("_gate_sequences")[0] in ("var", "after"), "C17.Y6", construct + "[sequences passed]", f.loc, found=show(d.get("_gate_sequences")) if d.get("_gate_sequences") else None, required="the derived layers", what="derived layers not used", detail="seq")
    rep.floor("return paths of from_connectivity", n, 1)


def t_and_(conds):
    from ..sym import t_and
    return t_and(*conds) if conds else TRUE


def _flatten_bool(t: Term) -> Term:
    """a conditional boolean ``a if c else b`` as (c and a) or (not c and b)"""
    from ..sym import t_and, t_or
    if not isinstance(t, tuple) or not t:
        return t
    if t[0] == "ite":
        c, a, b = _flatten_bool(t[1]), _flatten_bool(t[2]), _flatten_bool(t[3])
        return t_or(t_and(c, a), t_and(t_not(c), b))
    if t[0] == "not":
        return t_not(_flatten_bool(t[1]))
    if t[0] == "and":
        return t_and(*[_flatten_bool(x) for x in t[1]])
    if t[0] == "or":
        return t_or(*[_flatten_bool(x) for x in t[1]])
    return t


def strip_gate_ops(it: Term, layer: Term) -> bool:
    # the property gate_operations of a typed layer is inlined to its field
    return it[0] == "attr" and it[2] in ("gate_operations", "_gate_operations") and (it[1] == layer or (it[1][0] == "var" and it[1][3] == layer))


# ---------------------------------------------------------------------------------------------
def y7(model: Model, rep: Report):
    rep.rule("C17.Y7", "CompositeRepetitionCodeDescription.gate_sequences: every layer of the leading / base description yields one layer; a gate is dropped only when it is excluded "
                       "(by edge or by qubit); with required-only parking the parks are get_requires_parking over all device qubits for the gates that REMAIN")
    C = model.cls("CompositeRepetitionCodeDescription")
    f = C.properties.get("gate_sequences")
    if f is None:
        raise AnalysisError("CompositeRepetitionCodeDescription.gate_sequences not found")
    ev = Evaluator(model, inline_methods=False)
    ps = PathEnumerator(ev).function_paths(f, self_cls=C)
    s = sym(f.self_name)
    construct = "CompositeRepetitionCodeDescription.gate_sequences"
    n = 0
    for p in [q for q in ps if q.exit == "return"]:
        n += 1
        lp = loop_of(p)
        if lp is None:
            raise AnalysisError(f"{construct}: no layer loop")
        lay = ("bound", "for", lp.node.lineno, show(lp.term))
        src_ok = lp.term[0] in ("attr", "call") and "gate_sequences" in show(lp.term) and not subterms(lp.term, lambda y: y[0] == "slice")
        rep.check(src_ok, "C17.Y7", construct + "[all layers]", f.loc, found=show(lp.term), required="all layers of the leading / base description", what="layers are dropped", detail="layers")
        bad: List[str] = []
        from ..listflow import as_single_comp
        from ..sym import t_or, equivalent
        for bp in lp.extra["paths"]:
            flag = ("attr", s, "_only_required_parking_operations")
            layers_new = [c for e in bp.events if e.kind == "effect" for c in find_calls(e.term, "append") if c[2] and c[2][0][0] == "new" and c[2][0][1] == "GateSequenceLayer"]
            if len(layers_new) != 1:
                bad.append(f"{len(layers_new)} layers emitted per source layer")
                continue
            d = dict(layers_new[0][2][0][2])
            g_after = d.get("_gate_operations")
            # the kept gates as one filtered listing of the layer's gates (comprehension, or the accumulator loop it abbreviates)
            comp = as_single_comp(bp, g_after) if g_after is not None else None
            while comp is not None and comp[0] == "var" and comp[3][0] == "comp":
                comp = comp[3]
            if comp is None or comp[0] != "comp" or len(comp[3]) != 1 or comp[3][0][0] not in (("attr", lay, "gate_operations"), ("attr", lay, "_gate_operations")):
                bad.append("the gates of a layer are not all visited")
                continue
            gdom, gconds = comp[3][0]
            ops_b = subterms(comp, lambda y: y[0] == "bound" and y[3] == show(gdom))
            if len(ops_b) != 1 or comp[2] != ops_b[0]:
                bad.append("the emitted layer does not carry the filtered gates")
                continue
            op = ops_b[0]
            ex_edge = ("in", ("attr", op, "identifier"), ("attr", s, "_exclude_gate_edge_ids"))
            kept_when = _flatten_bool(t_and_(gconds))
            ats = atoms_of(kept_when)
            ex_q = [a for a in ats if a != ex_edge]
            ok_keep = ex_edge in ats and len(ex_q) == 1 and ex_q[0][0] == "quant" and ex_q[0][1] == "any" and equivalent(kept_when, t_not(t_or(ex_edge, ex_q[0]))) is None
            if ok_keep:
                qc = ex_q[0][2]
                ok_keep = qc[0] == "comp" and qc[3][0][0] == ("attr", ("attr", op, "identifier"), "qubit_ids") and not qc[3][0][1] and qc[2][0] == "in" and qc[2][2] == ("attr", s, "_exclude_gate_qubit_ids")
            if not ok_keep:
                bad.append(f"a gate is kept iff {show(kept_when)} (expected: not excluded by edge and none of its qubits excluded)")
            # parks
            parks = d.get("_park_operations")
            if subst(bp.cond, {flag: TRUE}) == TRUE:
                src = parks[3] if parks is not None and parks[0] == "var" else parks
                ok_p = src is not None and src[0] == "comp" and src[3][0][0] == ("attr", ("attr", s, "_connectivity"), "qubit_ids") and len(src[3][0][1]) == 1
                if ok_p:
                    kw = dict(src[3][0][1][0][3])
                    eids = kw.get("edge_ids")
                    es = eids[3] if eids is not None and eids[0] == "var" else eids
                    ok_p = es is not None and es[0] == "comp" and es[3][0][0] == g_after and not es[3][0][1]
                    if not ok_p:
                        bad.append(f"required parking is computed from {show(es[3][0][0]) if es is not None and es[0] == 'comp' else show(eids) if eids else None} instead of the gates that remain")
                else:
                    bad.append("required-only parking is not get_requires_parking over all device qubits")
            elif subst(bp.cond, {flag: FALSE}) == TRUE:
                if parks not in (("attr", lay, "park_operations"), ("attr", lay, "_park_operations")):
                    bad.append("without required-only parking the layer's own parks are not kept")
        rep.check(not bad, "C17.Y7", construct + "[only removes; parks for what remains]", f.loc, found="; ".join(sorted(set(bad))) or "gates only removed; parks from remaining gates", required="exclusions only remove gates; parking follows the remaining gates",
                  what="a composite description is not executable: " + "; ".join(sorted(set(bad))), detail="composite")
    rep.floor("return paths of composite gate_sequences", n, 1)
