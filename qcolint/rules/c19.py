"""C19 -- channel / identifier matching behave as overlap / identity relations.

I1  ChannelIdentifier.__eq__  ==  same id and (same channel or one side names all channels); symmetric;
    foreign type -> False.   Decided by tabulating the extracted Boolean formula over the complete finite
    domain (2 ids x 4 channels per side x isinstance) and comparing with the required relation.
I2  EdgeIDObj.__eq__ is the unordered-pair equality of its two qubits, __hash__ is invariant under the swap.
I3  QubitIDObj: __eq__ is name equality, __hash__ reads nothing but the attribute __eq__ compares.
I4  unique_in_order: append iff not yet seen, mark seen, whole input, input order.
"""
from __future__ import annotations

import ast
import itertools
from fractions import Fraction
from typing import Dict, List, Optional

from ..model import AnalysisError, ClassInfo, FunctionInfo, Model
from ..paths import PathEnumerator, find_calls
from ..report import Report
from ..sym import (FALSE, TRUE, Evaluator, Frame, Term, Unsupported, bool_value, const, lin, show, subst, subterms, sym, t_and,
                   t_cmp, t_not, t_or)


def _dataclass_eq_formula(ev: Evaluator, c: ClassInfo) -> Term:
    """Formula of the dataclass-generated __eq__ (same class and all compared fields equal)."""
    parts = [("isinstance", sym("other"), c.name)]
    for n, f in c.all_fields().items():
        if f.compare:
            parts.append(t_cmp("==", ("attr", sym("self"), n), ("attr", sym("other"), n)))
    return t_and(*parts)


def _eq_formula(ev: Evaluator, c: ClassInfo, other_cls: ClassInfo):
    f = c.resolve("__eq__")
    if f is None or f.cls is None or not f.cls.is_subclass_of(c) and f.cls not in c.mro():
        return None, None
    if "abstractmethod" in f.decorators:
        return None, f
    ev.set_type(sym("other"), other_cls)
    outs = ev.eval_function(f, self_cls=c)
    for o in outs:
        if o.kind == "raise":
            raise Unsupported(f"{f.qualname} may raise: {o}")
    return bool_value(outs), f


def _isinstance_atoms(t: Term) -> List[Term]:
    return subterms(t, lambda x: x[0] == "isinstance")


def _fold(t: Term, what: str) -> bool:
    if t == TRUE:
        return True
    if t == FALSE:
        return False
    from ..sym import _int_const
    if _int_const(t) is not None:
        return _int_const(t) != 0          # the truth value of an integer (a bit mask tested with ``bool(a & b)``)
    ident = subterms(t, lambda x: x[0] == "same")
    if ident:
        # identity of two equal values is not determined by the values: a name built at run time is equal to, but not the same object as, a stored one
        return _fold(subst(t, {a: FALSE for a in ident}), what + " [equal names taken as distinct objects: the test uses `is`]")
    try:
        v = _concrete(t)
    except _NotConcrete as e:
        raise Unsupported(f"{what}: formula does not reduce to a constant on a concrete valuation: {show(t)} ({e})")
    return bool(v)


class _NotConcrete(Exception):
    pass


_STR_METHODS = {"split", "rsplit", "join", "upper", "lower", "strip", "lstrip", "rstrip", "startswith", "endswith", "replace", "partition", "rpartition",
                "casefold", "title", "removeprefix", "removesuffix", "count", "find", "index", "__eq__", "__hash__", "__contains__"}


def _concrete(t: Term):
    """Value of a closed term over string constants (an identifier object is modelled by its name: ``X.id`` / ``X._id`` / ``X.name`` of the
    name X is X).  Only used on formulas that look INTO the names (split / join / f-strings), where the finite table of equality patterns no
    longer represents all inputs: a counter-example found here is a definite violation; finding none decides nothing."""
    if not isinstance(t, tuple) or not t:
        raise _NotConcrete(repr(t))
    k = t[0]
    if k == "const":
        return t[1]
    if k == "lin":
        from ..sym import number
        n = number(t)
        if n is None:
            raise _NotConcrete(show(t))
        return int(n) if n.denominator == 1 else float(n)
    if k == "attr" and t[2] in ("id", "_id", "name", "_name"):
        v = _concrete(t[1])
        if isinstance(v, str):
            return v
        raise _NotConcrete(show(t))
    if k == "fstr":
        return "".join(str(_concrete(x)) for x in t[1])
    if k in ("list", "tuple", "set"):
        vals = [_concrete(x) for x in t[1]]
        return vals if k == "list" else tuple(vals) if k == "tuple" else set(vals)
    if k == "and":
        return all(_concrete(x) for x in t[1])
    if k == "or":
        return any(_concrete(x) for x in t[1])
    if k == "not":
        return not _concrete(t[1])
    if k == "ite":
        return _concrete(t[2]) if _concrete(t[1]) else _concrete(t[3])
    if k == "in":
        return _concrete(t[1]) in _concrete(t[2])
    if k == "eq":
        return _concrete(t[1]) == _concrete(t[2])
    if k == "call":
        f = t[1]
        args = [_concrete(a) for a in t[2]]
        if t[3]:
            raise _NotConcrete("keyword arguments")
        if isinstance(f, tuple) and f[0] == "attr" and f[2] in _STR_METHODS:
            recv = _concrete(f[1])
            if isinstance(recv, (str, list, tuple)):
                return getattr(recv, f[2])(*args)
        if isinstance(f, str) and f in ("str", "len", "sorted", "list", "tuple", "set", "frozenset", "hash", "min", "max", "any", "all", "bool", "int"):
            import builtins
            return getattr(builtins, f)(*args)
        raise _NotConcrete(show(t))
    if k == "binop" and len(t) == 4 and t[1] in ("+", "add"):
        return _concrete(t[2]) + _concrete(t[3])
    if k == "sub":
        base, idx = _concrete(t[1]), _concrete(t[2])
        if isinstance(base, (list, tuple, str)) and isinstance(idx, int) and -len(base) <= idx < len(base):
            return base[idx]
        raise _NotConcrete(show(t))
    if k == "var" and len(t) == 4:
        return _concrete(t[3])
    if k == "comp" and t[1] in ("list", "gen", "set") and len(t[3]) == 1:
        dom, conds = t[3][0]
        items = _concrete(dom)
        if not isinstance(items, (list, tuple)):
            raise _NotConcrete(show(t))
        body = ("tuple", (t[2],) + tuple(conds))
        if subterms(body, lambda x: x[0] == "comp"):
            raise _NotConcrete(show(t))         # nested comprehension: whose element is meant is not decided here
        bs = set(subterms(body, lambda x: x[0] == "bound" and isinstance(x[1], int)))
        if len({(x[1], x[2]) for x in bs}) > 1:
            raise _NotConcrete(show(t))
        out = []
        for it in items:
            m = {b: _as_term(it) for b in bs}
            if all(_concrete(subst(c, m)) for c in conds):
                out.append(_concrete(subst(t[2], m)))
        return set(out) if t[1] == "set" else out
    raise _NotConcrete(show(t))


def _as_term(v) -> Term:
    if isinstance(v, (list, tuple)):
        return ("list" if isinstance(v, list) else "tuple", tuple(_as_term(x) for x in v))
    if isinstance(v, (str, int, bool)) or v is None:
        return ("const", v)
    raise _NotConcrete(repr(v))


def _looks_into_names(t: Term) -> List[str]:
    """String constants a formula uses as structure (separators of f-strings / split / join): names containing them are the interesting inputs."""
    seps = []
    for x in subterms(t, lambda x: x[0] == "fstr"):
        seps += [p[1] for p in x[1] if p[0] == "const" and isinstance(p[1], str) and p[1]]
    for x in subterms(t, lambda x: x[0] == "call" and isinstance(x[1], tuple) and x[1][0] == "attr" and x[1][2] in _STR_METHODS and not x[1][2].startswith("__")):
        seps += [a[1] for a in x[2] if a[0] == "const" and isinstance(a[1], str) and a[1]]
        if x[1][1][0] == "const" and isinstance(x[1][1][1], str) and x[1][1][1]:
            seps.append(x[1][1][1])
    return sorted(set(seps))


def check(model: Model, rep: Report, tier: str):
    rep.trust("spec: 'ALL' is the member of QubitChannel that names all channels")
    from .common import single_definition_rule
    with rep.isolated():
        single_definition_rule(model, rep, "C19.I7", ("QubitChannel", "ChannelIdentifier"), "ChannelIdentifier")
    with rep.isolated():
        single_definition_rule(model, rep, "C19.I7", ("QubitIDObj", "EdgeIDObj"), "EdgeIDObj")
    with rep.isolated():
        _i1(model, rep)
    with rep.isolated():
        _i2(model, rep)
    with rep.isolated():
        _i3(model, rep)
    with rep.isolated():
        _i4(model, rep)
    from .c16 import q11
    from .common import share_rule as _share
    with rep.isolated():
        _share(rep, model, q11, "C19.I6", "edge identifiers are matched as unordered pairs wherever the connectivity classes look them up: ParityGroup.contains decides membership "
               "with `in` on the identifier objects, not on their order-dependent `.id` strings (= C16.Q11)")
    from .c01 import r13
    from .common import share_rule
    with rep.isolated():
        share_rule(rep, model, r13, "C19.I5", "order-preserving de-duplication of channel identifiers keeps every element: the hash container behind unique_in_order only "
                   "unifies what hashes alike, and ChannelIdentifier's hash separates the channels of a qubit, so the ALL identifier survives next to a specific one (= C01.R13)")


# ----------------------------------------------------------------------------------------------
def _i1(model: Model, rep: Report):
    rep.rule("C19.I1", "ChannelIdentifier.__eq__ == same_id and (same_channel or self is ALL or other is ALL); "
                       "symmetric; never across qubits; foreign type -> False (tabulated over the full finite domain)")
    c = model.cls("ChannelIdentifier")
    qc = model.cls("QubitChannel")
    ev = Evaluator(model)
    members = ev.enum_members("QubitChannel")
    if not members or "ALL" not in members:
        raise AnalysisError("QubitChannel enumeration or its ALL member not found")
    fields = c.all_fields()
    ch_field = [n for n, f in fields.items() if ev.ann_class(f.annotation, f.owner.module) is qc]
    id_field = [n for n in fields if n not in ch_field]
    extra = []
    if len(id_field) > 1:
        # further fields with a default (a label, a cache slot) are not part of the pair; they must not enter the relation (checked on the formula below)
        extra = [n for n in id_field if fields[n].default is not None or fields[n].default_factory is not None or fields[n].init is False]
        id_field = [n for n in id_field if n not in extra]
    if len(ch_field) != 1 or len(id_field) != 1:
        raise AnalysisError(f"ChannelIdentifier fields changed: {list(fields)}")
    chf, idf = ch_field[0], id_field[0]
    # an identifier built from a qubit alone names ALL its channels (the spec's reading of 'no channel given'): the default of the channel field is the ALL member
    dflt = fields[chf].default
    if dflt is not None:
        dv = ev.expr(dflt, Frame(None, fields[chf].owner.module, {}, fields[chf].owner, 0))
        rep.check(dv == ("enum", "QubitChannel", "ALL"), "C19.I1", "ChannelIdentifier[default channel]", c.loc, found=show(dv), required="QubitChannel.ALL",
                  what=f"ChannelIdentifier(q) without a channel names {show(dv)} only: it no longer overlaps the other channels of its qubit", detail="default-channel")
    # the relation is stated over (qubit, channel) PAIRS: constructed positionally, the first argument is the qubit and the second the channel
    order = [n for n, f_ in fields.items() if f_.init is not False]
    rep.check(order[:2] == [idf, chf], "C19.I1", "ChannelIdentifier[positional order]", c.loc, found=f"init fields in order {order}", required=f"({idf}, {chf}, ...)",
              what=f"ChannelIdentifier(q, channel) no longer binds the channel: the positional parameters are {order}, so the second argument lands in '{order[1] if len(order) > 1 else '?'}' "
                   f"and the channel keeps its default -- identifiers of different channels of a qubit compare equal", detail="positional")
    own_eq = c.explicit_dunder("__eq__")
    if own_eq is None:
        formula, loc, construct = _dataclass_eq_formula(ev, c), c.loc, "ChannelIdentifier.__eq__(dataclass-generated)"
    else:
        formula, f = _eq_formula(ev, c, c)
        loc, construct = f.loc, "ChannelIdentifier.__eq__"
    S, O = sym("self"), sym("other")
    inst = _isinstance_atoms(formula)
    n_cases = 0
    bad: Optional[str] = None
    table: Dict[tuple, bool] = {}
    for is_inst in (True, False):
        for ids, ido in itertools.product((0, 1), repeat=2):
            for cs, co in itertools.product(members, repeat=2):
                mp = {("attr", S, idf): lin({}, Fraction(ids)), ("attr", O, idf): lin({}, Fraction(ido)),
                      ("attr", S, chf): ("enum", "QubitChannel", cs), ("attr", O, chf): ("enum", "QubitChannel", co)}
                for a in inst:
                    mp[a] = const(is_inst)
                got = _fold(subst(formula, mp), "C19.I1")
                want = is_inst and ids == ido and (cs == co or cs == "ALL" or co == "ALL")
                table[(is_inst, ids, ido, cs, co)] = got
                n_cases += 1
                if got != want and bad is None:
                    bad = (f"isinstance={is_inst} self=(#{ids},{cs}) other=(#{ido},{co}): code gives {got}, "
                           f"required {want}")
    rep.check(bad is None, "C19.I1", construct, loc, found=show(formula),
              required="isinstance(other) and same id and (same channel or self.channel is ALL or other.channel is ALL)",
              what=f"matching relation differs from the overlap relation: {bad}", detail="relation",
              note=f"{n_cases} valuations tabulated")
    # symmetry: table[(T, a, b, x, y)] == table[(T, b, a, y, x)]
    asym = [k for k, v in table.items() if k[0] and table[(True, k[2], k[1], k[4], k[3])] != v]
    rep.check(not asym, "C19.I1", construct + "[symmetry]", loc, found=f"{len(asym)} asymmetric pairs",
              required="a == b  <=>  b == a", what=f"matching is not symmetric, e.g. {asym[:1]}", detail="symmetry")
    cross = [k for k, v in table.items() if v and k[1] != k[2]]
    rep.check(not cross, "C19.I1", construct + "[never-across-qubits]", loc, found=f"{len(cross)} cross-qubit matches",
              required="no match when the ids differ", what=f"identifiers of different qubits match, e.g. {cross[:1]}",
              detail="cross-qubit")
    rep.analysed["C19.I1 valuations"] = n_cases


# ----------------------------------------------------------------------------------------------
def _i2(model: Model, rep: Report):
    rep.rule("C19.I2", "EdgeIDObj.__eq__ is equality of the unordered qubit pairs; __hash__ is invariant under "
                       "swapping the two qubits")
    c = model.cls("EdgeIDObj")
    iedge = model.cls("IEdgeID")
    ev = Evaluator(model)
    fields = [n for n, f in c.all_fields().items() if f.compare]
    if len(fields) != 2:
        raise AnalysisError(f"EdgeIDObj fields changed: {fields}")
    a, b = fields
    S, O = sym("self"), sym("other")
    if c.explicit_dunder("__eq__") is None and c.resolve("__eq__") is not None and "abstractmethod" in c.resolve("__eq__").decorators:
        formula, loc, construct = _dataclass_eq_formula(ev, c), c.loc, "EdgeIDObj.__eq__(dataclass-generated)"
    else:
        formula, f = _eq_formula(ev, c, c)
        if formula is None:
            formula, loc, construct = _dataclass_eq_formula(ev, c), c.loc, "EdgeIDObj.__eq__(dataclass-generated)"
        else:
            loc, construct = f.loc, "EdgeIDObj.__eq__"
    inst = _isinstance_atoms(formula)
    names = ["A", "B", "C"]
    seps = _looks_into_names(formula)
    for sp in seps:
        names += [f"A{sp}1", "1"]
    bad = None
    n = 0
    for is_inst in (True, False):
        for s0, s1 in itertools.permutations(names, 2):
            for o0, o1 in itertools.permutations(names, 2):
                mp = {("attr", S, a): ("const", s0), ("attr", S, b): ("const", s1),
                      ("attr", O, a): ("const", o0), ("attr", O, b): ("const", o1)}
                for at in inst:
                    # the test against the edge interface is a free fact; the qubits themselves are identifier objects
                    mp[at] = const(is_inst) if at[1] in (S, O) else TRUE
                got = _fold(subst(formula, mp), "C19.I2")
                want = is_inst and {s0, s1} == {o0, o1}
                n += 1
                if got != want and bad is None:
                    bad = f"isinstance={is_inst} self=({s0},{s1}) other=({o0},{o1}): code gives {got}, required {want}"
    if seps and bad is None:
        raise Unsupported(f"C19.I2: the formula looks into the qubit names (separators {seps}); the table of equality patterns does not represent all names and no "
                          f"counter-example was found among {names}: {show(formula)}")
    # the qubits of an edge are ANY identifiers of the qubit interface: a class test on them narrower than the declared interface makes equal edges unequal (even e == e)
    qi = model.maybe_cls("IQubitID")
    narrow = []
    for at in inst:
        if at[1] in (S, O) or not isinstance(at[2], str):
            continue
        k_ = model.maybe_cls(at[2])
        if k_ is not None and qi is not None and k_ is not qi and k_.is_subclass_of(qi):
            narrow.append(at)
    rep.check(not narrow, "C19.I2", construct + "[any qubit identifier]", loc, found="; ".join(show(a) for a in narrow) or "no class test on the qubit identifiers narrower than IQubitID",
              required="qubits are compared through the IQubitID interface", what="edge equality (through contains) only recognises qubits of one concrete identifier class: an edge "
              "whose qubits are another IQubitID implementation is not equal to an equal edge, not even to itself: " + "; ".join(show(a) for a in narrow), detail="narrow-class")
    rep.check(bad is None, "C19.I2", construct, loc, found=show(formula),
              required="isinstance(other, IEdgeID) and {self.q0, self.q1} == {other.q0, other.q1}",
              what=f"edge equality is not the unordered-pair equality: {bad}", detail="relation",
              note=f"{n} valuations tabulated")
    # hash
    h = c.explicit_dunder("__hash__")
    if h is None:
        # dataclass(frozen=True, eq=True) generates hash((q0, q1)) -- order dependent
        rep.fail("C19.I2", "EdgeIDObj.__hash__(dataclass-generated)", c.loc, found="hash((qubit_id0, qubit_id1))",
                 required="expression invariant under swapping the two qubits",
                 what="generated field hash depends on the order of the two qubits", detail="hash")
    else:
        ev2 = Evaluator(model)
        hv = ev2.value_of(h, self_cls=c)
        def _canon(t):
            """order-insensitive operators read the same whichever way their operands are written: min / max / sorted / set / frozenset / sum over a display
            (or over their own arguments) are put in one canonical operand order"""
            from .common import devar as _devar
            if not isinstance(t, tuple) or not t:
                return t
            t = tuple(_canon(x) if isinstance(x, tuple) else x for x in t)
            if t[0] == "comp":
                from ..listflow import unroll_comp
                u = unroll_comp(t)
                if u is not t:
                    return _canon(u)          # a comprehension without filter over a display is the display of its results
            if t[0] == "call" and isinstance(t[1], tuple) and len(t[1]) == 2 and t[1][0] in ("global", "builtin") and t[1][1] in ("min", "max", "sorted", "set", "frozenset", "sum"):
                t = ("call", t[1][1]) + t[2:]      # the builtin handed around as a value (``for bound in (min, max)``) is the builtin
            if t[0] == "call" and t[1] in ("min", "max", "sorted", "set", "frozenset", "sum") and not t[3]:
                args = t[2]
                if len(args) == 1 and _devar(args[0])[0] in ("list", "tuple", "set"):
                    d = _devar(args[0])
                    return ("call", t[1], ((d[0] if t[1] != "sorted" else "tuple", tuple(sorted(d[1], key=repr))),), ())
                if len(args) > 1 and t[1] in ("min", "max"):
                    return ("call", t[1], tuple(sorted(args, key=repr)), ())
            if t[0] in ("min", "max") and len(t) == 2 and isinstance(t[1], tuple):
                return (t[0], tuple(sorted(t[1], key=repr)))
            return t
        hv = _canon(hv)
        swapped = _canon(subst(hv, {("attr", S, a): ("attr", S, b), ("attr", S, b): ("attr", S, a)}))
        leaves = subterms(hv, lambda x: x[0] == "attr" and x[1] == S)
        uses_both = {x[2] for x in leaves} >= {a, b}
        same = hv == swapped
        if not same:
            # the two qubit hashes are only compared with each other: decide per ordering (<, ==, >) of the two integers
            from .c12 import K, ONE, resolve_max
            from ..sym import t_add
            fa, fb = ("attr", S, a), ("attr", S, b)
            pairs = []
            for c_ in subterms(hv, lambda x: x[0] == "call"):
                lv = {x[2] for x in subterms(c_, lambda x: x[0] == "attr" and x[1] == S)}
                if lv == {a}:
                    mate = subst(c_, {fa: fb})
                    if subterms(hv, lambda x: x == mate):
                        pairs.append((c_, mate))
            pairs.sort(key=lambda pr: -len(repr(pr[0])))
            same = bool(pairs)
            if pairs:
                hx, hy = pairs[0]
                for mp in ({hy: t_add(t_add(hx, ONE), K)}, {hy: hx}, {hx: t_add(t_add(hy, ONE), K)}):
                    if resolve_max(subst(hv, mp)) != resolve_max(subst(swapped, mp)):
                        same = False
        rep.check(same and uses_both, "C19.I2", "EdgeIDObj.__hash__", h.loc, found=show(hv),
                  required="same normal form after exchanging the two qubits, reading both",
                  what="hash changes (or ignores a qubit) when the two qubits are exchanged: swapped form is "
                       + show(swapped), detail="hash")
        bad_calls = [x for x in subterms(hv, lambda x: x[0] == "call" and x[1] == "id")]
        rep.check(not bad_calls, "C19.I2", "EdgeIDObj.__hash__[value-based]", h.loc, found=show(hv),
                  required="no id() of the instance", what="hash is identity based while equality is value based",
                  detail="hash-id")


# ----------------------------------------------------------------------------------------------
def _i3(model: Model, rep: Report):
    rep.rule("C19.I3", "QubitIDObj.__eq__ is equality of the names (foreign type -> False); __hash__ reads only the "
                       "attribute that __eq__ compares")
    c = model.cls("QubitIDObj")
    ev = Evaluator(model)
    S, O = sym("self"), sym("other")
    if c.explicit_dunder("__eq__") is None:
        formula, loc, construct = _dataclass_eq_formula(ev, c), c.loc, "QubitIDObj.__eq__(dataclass-generated)"
    else:
        formula, f = _eq_formula(ev, c, c)
        loc, construct = f.loc, "QubitIDObj.__eq__"
    inst = _isinstance_atoms(formula)
    s_leaves = subterms(formula, lambda x: x[0] == "attr" and x[1] == S)
    o_leaves = subterms(formula, lambda x: x[0] == "attr" and x[1] == O)
    if len(s_leaves) != 1 or len(o_leaves) != 1 or s_leaves[0][2] != o_leaves[0][2]:
        rep.fail("C19.I3", construct, loc, found=show(formula), required="isinstance(other, IQubitID) and self.<name> == other.<name>",
                 what="equality does not compare one and the same attribute on both sides", detail="relation")
        return
    attr = s_leaves[0][2]
    bad = None
    for is_inst in (True, False):
        for x, y in itertools.product(("A", "B"), repeat=2):
            mp = {s_leaves[0]: ("const", x), o_leaves[0]: ("const", y)}
            for at in inst:
                mp[at] = const(is_inst)
            got = _fold(subst(formula, mp), "C19.I3")
            want = is_inst and x == y
            if got != want and bad is None:
                bad = f"isinstance={is_inst} self={x} other={y}: code gives {got}, required {want}"
    rep.check(bad is None, "C19.I3", construct, loc, found=show(formula),
              required="isinstance(other, IQubitID) and self.name == other.name",
              what=f"qubit identifier equality is not name equality: {bad}", detail="relation")
    h = c.explicit_dunder("__hash__")
    if h is None:
        fields = [n for n, f in c.all_fields().items() if f.compare]
        rep.check(fields == [attr], "C19.I3", "QubitIDObj.__hash__(dataclass-generated)", c.loc, found=fields,
                  required=[attr], what="generated hash covers other fields than equality compares", detail="hash")
    else:
        hv = Evaluator(model).value_of(h, self_cls=c)
        leaves = {x[2] for x in subterms(hv, lambda x: x[0] == "attr" and x[1] == S)}
        idcalls = subterms(hv, lambda x: x[0] == "call" and x[1] == "id")
        rep.check(leaves == {attr} and not idcalls, "C19.I3", "QubitIDObj.__hash__", h.loc, found=show(hv),
                  required=f"a function of self.{attr} only", what="hash reads something else than the compared name",
                  detail="hash")


# ----------------------------------------------------------------------------------------------
def _i4(model: Model, rep: Report):
    rep.rule("C19.I4", "unique_in_order: iterates the whole input in order; appends an element iff it has not been "
                       "seen; marks it seen on the same path; returns the appended list")
    fn = model.function("array_manipulation", "unique_in_order")
    construct = "unique_in_order"
    if len(fn.params) < 1:
        raise AnalysisError("unique_in_order lost its parameter")
    param = sym(fn.params[0].arg)
    ev = Evaluator(model)
    pe = PathEnumerator(ev)
    paths = pe.function_paths(fn)
    rets = [p for p in paths if p.exit == "return"]
    if len(paths) != 1 or len(rets) != 1:
        # idiom without loop, e.g. list(dict.fromkeys(iterable))
        pass
    p = rets[0] if rets else paths[0]
    idiom = ("call", "list", (("call", ("attr", ("global", "dict"), "fromkeys"), (param,), ()),), ())
    if p.value == idiom and not [e for e in p.events if e.kind == "loop"]:
        rep.ok("C19.I4", construct, fn.loc, found="list(dict.fromkeys(input))", required="first-occurrence order", note="dict idiom")
        return
    # comprehension idiom: [x for x in input if not (x in seen or seen.add(x))] with ``seen`` a set created empty in the function: add() answers None,
    # so the filter keeps x exactly when it was not seen, and marks it in the same test
    v0 = p.value
    if v0 is not None and v0[0] == "call" and v0[1] == "list" and len(v0[2]) == 1:
        v0 = v0[2][0]
    if v0 is not None and v0[0] == "comp" and v0[1] in ("list", "gen") and len(v0[3]) == 1 and not [e for e in p.events if e.kind == "loop"]:
        dom, conds = v0[3][0]
        b = v0[2]
        ok = dom == param and b[0] == "bound" and len(conds) == 1
        why = ""
        if ok:
            c = conds[0]
            ok = c[0] == "not" and c[1][0] == "or" and len(c[1][1]) == 2
            if ok:
                x, y = c[1][1]
                if x[0] != "in":
                    x, y = y, x
                ok = (x[0] == "in" and x[1] == b and x[2][0] == "var" and x[2][3] in (("call", "set", (), ()), ("set", ()))
                      and y == ("call", ("attr", x[2], "add"), (b,), ()) and c[1][1][0][0] == "in")
                why = "" if ok else "the filter is not `not (x in seen or seen.add(x))` with the membership test first"
        if not ok and not subterms(v0, lambda y: y[0] == "call" and y[1] in ("set", "sorted", "frozenset", ("global", "sorted")) and y[2] and subterms(y[2][0], lambda z: z == param)):
            # another spelling of a filtered single pass (filterfalse over the seen-set, a marking call in the filter ...): not read; no verdict
            raise AnalysisError(f"unique_in_order: comprehension {show(v0)[:120]} is not the idiom `[x for x in input if not (x in seen or seen.add(x))]` (shape not read)")
        rep.check(ok, "C19.I4", construct, fn.loc, found=show(v0), required="[x for x in input if not (x in seen or seen.add(x))], seen = set()",
                  what="de-duplication does not keep exactly the first occurrences: " + (why or "comprehension over something else than the whole input, or an unrecognised filter"), detail="comp-idiom")
        return
    loops = [e for e in p.events if e.kind == "loop"]
    if len(loops) != 1 or not isinstance(loops[0].node, ast.For):
        # known order-losing spellings are violations; any other loop-free shape (a stateful predicate handed to filter, a helper generator ...) is not read
        v1 = p.value
        lossy = v1 is not None and subterms(v1, lambda y: y[0] == "call" and y[1] in ("set", "frozenset", ("global", "set")) and len(y[2]) == 1 and y[2][0] == param)
        if lossy and not loops:
            rep.fail("C19.I4", construct, fn.loc, found=show(v1), required="first occurrences in input order",
                     what="de-duplication goes through set(input): the order of the input is lost", detail="shape")
            return
        if v1 is not None and not loops:
            from .common import devar as _dv
            v2 = _dv(v1)
            keyed = subterms(v2, lambda y: y[0] in ("dictcomp", "dict") or (y[0] == "comp" and y[1] == "set") or
                             (y[0] == "call" and y[1] in ("set", "frozenset", "dict", ("global", "set"), ("global", "dict"))))
            resorted = subterms(v2, lambda y: y[0] == "values" or (y[0] == "call" and (y[1] in ("sorted", ("global", "sorted")) or (isinstance(y[1], tuple) and y[1][0] == "attr" and y[1][2] in ("values", "sort")))))
            if keyed and resorted and subterms(v2, lambda y: y == param):
                rep.fail("C19.I4", construct, fn.loc, found=show(v1)[:160], required="first occurrences, in the order of a single pass over the input",
                         what="the result is re-assembled from a table keyed by the elements (sorted by a stored position / the table's values): a position table keeps the LAST "
                              "position of a repeated element, a value table its LAST equal object, and a set picks representatives by hash while `index` searches by the relaxed "
                              "equality -- the first occurrences in input order are not what comes out", detail="shape")
                return
        raise AnalysisError(f"unique_in_order: neither the accumulator loop, the comprehension idiom nor list(dict.fromkeys(..)) ({len(loops)} loops; value {show(v1)[:100] if v1 else None}): shape not read")
    lp = loops[0]
    rep.check(lp.term == param, "C19.I4", construct + "[domain]", fn.loc, found=show(lp.term), required=show(param),
              what="the loop does not range over the whole input in its original order", detail="domain")
    result = p.value
    if result is not None and result[0] == "call" and result[1] == "list" and len(result[2]) == 1:
        result = result[2][0]
    if result is None or result[0] != "var" or result[3] not in (("list", ()), ("call", "list", (), ())):
        rep.fail("C19.I4", construct, fn.loc, found=show(result) if result else None, required="a list created empty in the function",
                 what="the returned value is not the list the loop fills", detail="result")
        return
    elem = ("bound", "for", lp.node.lineno, show(lp.term))
    body = lp.extra["paths"]
    problems: List[str] = []
    seen_container: Optional[Term] = None
    for bp in body:
        appends = [c for e in bp.events if e.kind == "effect" for c in find_calls(e.term, "append")
                   if c[1] == ("attr", result, "append")]
        # membership atoms of this path
        from ..sym import atoms_of
        ats = atoms_of(bp.cond)
        memb = [a for a in ats if a[0] == "in" and a[1] == elem]
        if len(memb) > 1 or (ats and not memb) or len(ats) > 1:
            problems.append(f"unrecognised condition {show(bp.cond)}")
            continue
        if not ats:
            problems.append("element appended (or skipped) unconditionally" if True else "")
            continue
        cont = memb[0][2]
        seen_container = seen_container or cont
        if cont != seen_container:
            problems.append("membership tested against different containers")
        is_new = bp.cond == t_not(memb[0])
        if is_new:
            if len(appends) != 1 or appends[0][2] != (elem,):
                problems.append(f"a new element is appended {len(appends)} times")
            marks = [c for e in bp.events if e.kind == "effect"
                     for nm in ("add", "append") for c in find_calls(e.term, nm)
                     if c[1][0] == "attr" and c[1][1] == cont and c[2] == (elem,)]
            if cont != result and not marks:
                problems.append("a new element is not marked as seen")
            if bp.exit not in ("fall", "continue"):
                problems.append(f"loop is left ({bp.exit}) after a new element")
        else:
            if appends:
                problems.append("an element already seen is appended again")
            if bp.exit not in ("fall", "continue"):
                problems.append(f"loop is left ({bp.exit}) on a duplicate")
    if seen_container is not None and seen_container[0] == "var":
        init = seen_container[3]
        empty = init in (("call", "set", (), ()), ("list", ()), ("set", ()), ("call", "list", (), ()), ("dict", ()))
        if not empty:
            problems.append(f"the seen-container does not start empty: {show(init)}")
    elif seen_container is not None:
        problems.append(f"the seen-container is not a local of the function: {show(seen_container)}")
    # nothing else may touch the result list
    others = [e for e in p.events if e.kind in ("effect", "store") and e.term is not None and
              any(c[1][1] == result for nm in ("append", "extend", "insert", "remove", "pop", "clear", "reverse", "sort")
                  for c in find_calls(e.term, nm) if c[1][0] == "attr")]
    if others:
        problems.append("the result list is modified outside the loop")
    rep.check(not problems, "C19.I4", construct, fn.loc, found="; ".join(problems) or "append iff not seen; mark seen",
              required="append(element) exactly when element not in seen, then mark it seen",
              what="order-preserving de-duplication broken: " + "; ".join(problems), detail="loop")
