"""C09 -- repetition-code circuits run the protocol (claimed in part).

Simulation semantics (the measurement record, determinism of detectors) are NOT decidable by this family.  Decided:

P1  cycle accounting: in every region of qec_cycles (0, 1, 2, 3, k+4) the repetition counts of the sub-circuits that
    get_circuit_qec_with_detectors adds sum to qec_cycles, each count >= 1; 0 cycles emit one ancilla measurement and no round.
P2  record offsets: every last_acquisition_index / main_target / secondary_target / reference_offset / secondary_offset argument of
    the detector and observable annotations, as a normal form, equals the pinned protocol form.
P3  sibling rounds: get_circuit_qec_round and get_circuit_qec_round_with_dynamical_decoupling agree on the gate part.
P4  state-preparation wiring: the initial-state -> operation table, exhaustive; data keys use the data getter with data qubit ids,
    ancilla keys the ancilla getter with ancilla qubit ids; a membership guard and the subscript it protects use one container.
"""
from __future__ import annotations

import ast
from fractions import Fraction
from typing import Dict, List, Optional, Tuple

from ..builder import Emit, emits
from ..model import AnalysisError, FunctionInfo, Model
from ..paths import Path, PathEnumerator, find_calls
from ..report import Report
from ..sym import (FALSE, NONE, TRUE, Evaluator, Frame, Term, Unsupported, as_lin, atoms_of, const, lin, number, show, subst, subterms, sym,
                   t_add, t_and, t_cmp, t_mul, t_not, t_scale)
from .c12 import K, ONE, ZERO, resolve_max
from .c16 import _strip_lines
from .common import devar, is_call_of, loop_of

CC = "repetition_code.circuit_components"
STATE_TABLE = {"ZERO": "Identity", "ONE": "Rx180", "PLUS": "Ry90", "MINUS": "Rym90", "PLUS_I": "Rxm90", "MINUS_I": "Rx90"}
# concrete small cycle counts plus a symbolic tail: every threshold below the tail start is decided exactly
TAIL = 9
REGIONS = [(f"n={i}", lin({}, Fraction(i))) for i in range(1, TAIL)] + [(f"n=k+{TAIL}", t_add(K, lin({}, Fraction(TAIL))))]


def check(model: Model, rep: Report, tier: str):
    rep.trust("spec: state preparation 0->I, 1->X180, +->Y90, -->Ym90, +i->Xm90, -i->X90; detector record-offset forms of DESIGN.md C09.P2 (confirmed by the golden tests and one-off simulation)")
    with rep.isolated():
        p1(model, rep, "C09.P1")
    with rep.isolated():
        p2(model, rep)
    with rep.isolated():
        p3(model, rep)
    with rep.isolated():
        p4(model, rep)
    with rep.isolated():
        from .c03 import h7 as _h7
        from ..effects import Effects as _Eff
        from ..resolve import CallGraph as _CG
        _cg = _CG(model)
        _h7(model, rep, _cg, _Eff(model, _cg), rule="C09.P13", keep=lambda f: "/structure/" in f.module.relpath or "/language/" in f.module.relpath)
    from .c17 import y6
    from .common import share_rule
    from .common import handover_complete_rule
    with rep.isolated():
        handover_complete_rule(model, rep, "C09.P16")
    from .c06 import u5 as _u5
    from .c17 import y_tables as _yt
    with rep.isolated():
        share_rule(rep, model, _yt, "C09.P15", "the parity every ancilla accumulates is that of ITS data neighbours: in the shipped gate-sequence tables every ancilla-data edge of every "
                   "parity group is played exactly once per round, on pairwise distinct qubits per step (= C17.Y2/Y3)")
    from .c06 import u2 as _u2
    with rep.isolated():
        share_rule(rep, model, _u2, "C09.P17", "unrolling a block repeated n times yields exactly n copies, for every n (= C06.U2): the middle rounds of an experiment are one block "
                   "repeated qec_cycles - 3 times, and a repeat() that is right for small n only loses whole rounds of long experiments")
    with rep.isolated():
        share_rule(rep, model, _u5, "C09.P14", "the unrolled circuit is exported with the counts in force after unrolling: nr_of_repetitions is computed on every read (= C06.U5); a "
                   "cached count makes the exporter repeat the already unrolled rounds again")
    with rep.isolated():
        share_rule(rep, model, y6, "C09.P5", "descriptions derived from a Surface-17 layout keep exactly the involved gates, recompute parking, map identifiers bijectively and carry the requested "
                   "refocusing option (= C17.Y6): 'with and without qubit refocusing' is honoured for every contiguous sub-chain")
    with rep.isolated():
        p5(model, rep)
    with rep.isolated():
        p6(model, rep)
    with rep.isolated():
        p10(model, rep)
    from .c03 import h6
    from ..resolve import CallGraph
    with rep.isolated():
        h6(model, rep, CallGraph(model), keep=lambda h: "repetition_code" in h.loc or "connectivity" in h.loc, rule="C09.P8")
    rep.rules_text["C09.P8"] = ("the description a circuit is built from lists exactly its own qubits: a qubit listing handed out by one description and extended in place by a composite "
                                "description is a fresh list (= C03.H6) -- otherwise the base description grows foreign qubits and the next circuit built from it resets, "
                                "heralds and measures them")
    from .c11 import f3
    with rep.isolated():
        f3(model, rep, "C09.P9")
    from .c01 import r6
    with rep.isolated():
        share_rule(rep, model, r6, "C09.P11", "the record holds 'equally after flattening': flatten() re-inserts every operation through add_to_graph, which puts an operation whose "
                   "reference was dissolved behind the latest node on its channels -- never blindly under the root, where the head of every later block would run first (= C01.R6)")
    rep.rules_text["C09.P9"] = ("the multi-round constructor builds every round as construct(...) -> apply_modifiers() -> flatten(): unrolling comes first, because flatten() "
                                "drops the repetition counts of nested blocks and the round would run fewer cycles than requested (= C11.F3)")


def p10(model: Model, rep: Report):
    """The requested initial states reach the preparation builder unfiltered."""
    rep.rule("C09.P10", "construct_repetition_code_circuit / _simplified hand the caller's initial_state container to the preparation builder as it is (the parameter "
                        "itself on every path): a filtered or rebuilt container drops requested states, which are then never prepared")
    from ..sym import subterms as _sub
    n = 0
    for fname in ("construct_repetition_code_circuit", "construct_repetition_code_circuit_simplified"):
        f = model.function("repetition_code.circuit_constructors", fname)
        if "initial_state" not in f.param_names:
            raise AnalysisError(f"{fname}: parameter initial_state vanished")
        init = sym("initial_state")
        ev = Evaluator(model, inline_methods=False)
        ps = PathEnumerator(ev).function_paths(f)
        seen = set()
        for p in ps:
            if p.exit != "return":
                continue
            calls = []
            for e in p.events:
                if e.term is not None:
                    calls += [c for c in _sub(e.term, lambda y: y[0] == "call" and isinstance(y[1], tuple) and y[1][0] == "fn" and "get_circuit_initialize" in y[1][1])]
            for c in calls:
                v = dict(c[3]).get("initial_state", c[2][1] if len(c[2]) > 1 else None)
                if v is None or repr(v) in seen:
                    continue
                seen.add(repr(v))
                n += 1
                from .common import devar
                dv = devar(v)
                ok = dv == init
                filtered = bool(_sub(dv, lambda y: y[0] in ("dictcomp", "comp") and any(cond for _, cond in (y[3] if y[0] == "comp" else y[3])))) if not ok else False
                if not ok and not filtered and not _sub(dv, lambda y: y[0] == "new" and y[1] == "InitialStateContainer") and not (dv[0] == "call"):
                    raise AnalysisError(f"{fname}: initial_state handed to the preparation builder is {show(dv)[:100]} (not the parameter; shape not recognised)")
                rep.check(ok, "C09.P10", f"{fname}[initial_state]", f.loc, found=show(dv)[:140], required="the caller's initial_state",
                          what="the preparation builder receives a rebuilt / filtered container instead of the requested initial states: entries it leaves out are silently not prepared",
                          detail="initial-state")
    rep.floor("initial_state hand-overs in the single-experiment constructors", n, 2)


def qec_paths(model: Model):
    f = model.function(CC, "get_circuit_qec_with_detectors")
    ev = Evaluator(model, inline_methods=False)
    ps = PathEnumerator(ev).function_paths(f)
    return f, ev, ps


def region_path(ps: List[Path], n_sym: Term, n_val: Term) -> Path:
    hits = []
    for p in ps:
        if p.exit != "return":
            continue
        c = resolve_max(subst(p.cond, {n_sym: n_val}))
        if c == TRUE:
            hits.append(p)
        elif c != FALSE:
            raise AnalysisError(f"get_circuit_qec_with_detectors: guard not decidable for qec_cycles = {show(n_val)}: {show(c)}")
    if len(hits) != 1:
        raise AnalysisError(f"get_circuit_qec_with_detectors: {len(hits)} paths for qec_cycles = {show(n_val)}")
    return hits[0]


def sub_circuits(p: Path) -> List[Emit]:
    return [e for e in emits(p, p.value) if e.cls == "DeclarativeCircuit"]


def reps_of(e: Emit) -> Optional[Term]:
    rs = e.field("repetition_strategy")
    if rs is None:
        return ONE
    if rs[0] == "new" and rs[1] == "FixedRepetitionStrategy":
        return dict(rs[2]).get("repetitions", ONE)
    return None


def p1(model: Model, rep: Report, rule: str):
    rep.rule(rule, "get_circuit_qec_with_detectors: for qec_cycles in each region {1, ..., 8, k+9 (k >= 0)} the fixed repetition counts of the sub-circuits added to the "
                   "result sum to qec_cycles and each is >= 1; for qec_cycles == 0 exactly one measurement per measured ancilla and no round is emitted")
    f, ev, ps = qec_paths(model)
    n = sym(f.param_names[1])
    conn = sym(f.param_names[0])
    for rname, val in REGIONS:
        p = region_path(ps, n, val)
        subs = sub_circuits(p)
        counts = []
        bad = []
        for e in subs:
            r = reps_of(e)
            if r is None:
                bad.append("a sub-circuit has a non-fixed repetition strategy")
                continue
            r = resolve_max(subst(r, {n: val}))
            counts.append(r)
            coeffs, k = as_lin(r)
            if not (all(x == K for x in coeffs) and all(c >= 0 for c in coeffs.values()) and k >= 1):
                bad.append(f"a sub-circuit is repeated {show(r)} times (not >= 1)")
        total: Term = ZERO
        for c in counts:
            total = t_add(total, c)
        ok = not bad and total == val and len(subs) >= 1
        rep.check(ok, rule, f"get_circuit_qec_with_detectors[cycles {rname}]", f.loc, found=f"{len(subs)} sub-circuits repeated {[show(c) for c in counts]} = {show(total)}" + ("; " + "; ".join(bad) if bad else ""),
                  required=f"sum of repetitions == {show(val)}", what=f"for qec_cycles {rname} the circuit runs {show(total)} rounds instead of {show(val)}", detail=f"sum:{rname}")
    # zero cycles
    p0 = region_path(ps, n, ZERO)
    es = emits(p0, p0.value)
    ev.set_type(conn, ev.ann_class(f.params[0].annotation, f.module))
    want_loop = ev.attr(conn, "measure_ancilla_qubit_indices", Frame(f, f.module, {}, None, 0))
    ok = len(es) == 1 and es[0].cls == "DispersiveMeasure" and len(es[0].loops) == 1 and _strip_lines(es[0].loops[0]) == _strip_lines(want_loop) and es[0].cond == TRUE
    rep.check(ok, rule, "get_circuit_qec_with_detectors[cycles n=0]", f.loc, found=[repr(e) for e in es], required="one DispersiveMeasure per connectivity.measure_ancilla_qubit_indices, nothing else",
              what="a 0-cycle experiment does not measure each ancilla exactly once", detail="zero")


def _last_acq(circ: Term, qubit: Optional[Term] = None) -> Term:
    kw = [("_circuit", circ)]
    if qubit is not None:
        kw.append(("qubit_index", qubit))
    return ("attr", ("call", ("fn", "circuit_components.get_last_acquisition_operation"), (), tuple(sorted(kw))), "circuit_level_acquisition_index")


def p2(model: Model, rep: Report):
    rep.rule("C09.P2", "detector / observable record offsets: inside each repeated sub-circuit, per ancilla: last_acquisition_index = last acquisition of THAT sub-circuit, main_target = last "
                       "acquisition of that ancilla in it; reference_offset: none in the first block, 2*|ancillas| in the middle block, 2*|ancillas| iff qec_cycles > 2 in the last block; "
                       "final detectors pair the two neighbouring data measurements with reference_offset = (last index of the QEC part + 1 - ancilla's last index in it) + |observables| "
                       "(iff cycles > 0) and secondary_offset = |detectors| iff cycles > 1; observables point at the data qubit's own last measurement")
    f, ev, ps = qec_paths(model)
    n = sym(f.param_names[1])
    conn = sym(f.param_names[0])
    pfull = region_path(ps, n, t_add(K, lin({}, Fraction(TAIL))))
    subs = sub_circuits(pfull)
    if len(subs) != 3:
        raise AnalysisError(f"get_circuit_qec_with_detectors: expected three sub-circuits for qec_cycles >= 4, found {len(subs)}")
    anc_list = ("attr", conn, "detector_qubit_indices")
    ev.set_type(conn, ev.ann_class(f.params[0].annotation, f.module))
    anc_list = ev.attr(conn, "detector_qubit_indices", Frame(f, f.module, {}, None, 0))
    two_a = t_scale(("call", "len", (anc_list,), ()), Fraction(2))
    names = ["first (refocusing, min(2, n-1) rounds)", "middle (n-3 rounds)", "last (1 round, no refocusing)"]
    want_ref = [None, two_a, ("ite", t_cmp(">", n, lin({}, Fraction(2))), two_a, NONE)]
    want_round = ["circuit_components.get_circuit_qec_round_with_dynamical_decoupling", "circuit_components.get_circuit_qec_round_with_dynamical_decoupling", "circuit_components.get_circuit_qec_round"]
    for i, sub in enumerate(subs):
        sub_t = sub.term
        inner = emits(pfull, sub_t)
        dets = [e for e in inner if e.cls == "DetectorOperation"]
        rounds = [e for e in inner if e.cls and e.cls.startswith("circuit_components.get_circuit_qec_round")]
        shifts = [e for e in inner if e.cls == "CoordinateShiftOperation"]
        construct = f"get_circuit_qec_with_detectors[{names[i]}]"
        ok_round = len(rounds) == 1 and rounds[0].cls == want_round[i] and dict(rounds[0].term[3]) == {"connectivity": conn, "registry": sym(f.param_names[2])} and inner and inner[0] is rounds[0]
        rep.check(ok_round, "C09.P2", construct + "[round]", f.loc, found=[e.cls for e in rounds], required=want_round[i] + "(connectivity, registry) first", what="the block does not start with its QEC round (with / without refocusing as the protocol prescribes)", detail=f"round:{i}")
        ok = len(dets) == 1 and len(dets[0].loops) == 1 and _strip_lines(devar(dets[0].loops[0])) == _strip_lines(anc_list)
        found = "detector loop not recognised"
        if ok:
            d = dets[0]
            a = subterms(d.field("qubit_index"), lambda y: y[0] == "bound")
            a = a[0] if a else None
            got = {k: d.field(k) for k in ("qubit_index", "last_acquisition_index", "main_target", "secondary_target", "reference_offset", "secondary_offset")}
            want = {"qubit_index": a, "last_acquisition_index": _last_acq(sub_t), "main_target": _last_acq(sub_t, a), "secondary_target": None, "reference_offset": want_ref[i], "secondary_offset": None}
            nrm = lambda t: _strip_lines(devar(t)) if t is not None and t != NONE else None    # an offset spelled out as None is an offset left out
            ok = all(nrm(got[k]) == nrm(want[k]) for k in got)
            found = {k: (show(v) if v is not None else None) for k, v in got.items() if nrm(got[k]) != nrm(want[k])} or "as pinned"
        rep.check(ok, "C09.P2", construct + "[detectors]", f.loc, found=found, required="last = last acquisition of this block; main = this ancilla's last acquisition in it; reference_offset as pinned",
                  what="a detector of this block compares the wrong measurement records (valid circuit, random detector)", detail=f"detector:{i}")
        rep.check(len(shifts) == 1 and dict(shifts[0].term[2]).get("time_shift") == ONE, "C09.P2", construct + "[coordinate shift]", f.loc, found=[show(s_.term) for s_ in shifts], required="one CoordinateShiftOperation(time_shift=1)",
                  what="detector time coordinates do not advance by one per round", detail=f"shift:{i}")
    # final detectors / observables
    g = model.function("repetition_code.circuit_constructors", "construct_repetition_code_circuit")
    ev2 = Evaluator(model, inline_methods=False)
    gps = PathEnumerator(ev2).function_paths(g)
    cycles = sym(g.param_names[0])
    n_paths = 0
    for p in [q for q in gps if q.exit == "return"]:
        n_paths += 1
        res = p.value
        es = emits(p, res)
        # alternative body paths of a loop emit the same statement under different guards: list each statement once
        seen_nodes = []
        uniq = []
        for e in es:
            if any(e.node is n_ for n_ in seen_nodes):
                continue
            seen_nodes.append(e.node)
            uniq.append(e)
        order = [e.cls for e in uniq]
        want_order = ["circuit_components.get_circuit_initialize_with_heralded", "circuit_components.get_circuit_qec_with_detectors", "circuit_components.get_circuit_final_measurement", "DetectorOperation", "LogicalObservableOperation"]
        rep.check(order == want_order, "C09.P2", "construct_repetition_code_circuit[order]", g.loc, found=order, required=want_order, what="the experiment is not heralded initialisation, QEC part, final measurement, detectors, observables", detail="order")
        if order != want_order:
            continue
        qec = uniq[1].term
        okq = dict(qec[3]).get("qec_cycles") == cycles
        rep.check(okq, "C09.P2", "construct_repetition_code_circuit[cycles passed]", g.loc, found=show(dict(qec[3]).get("qec_cycles")), required=show(cycles), what="the QEC part is built for another number of cycles", detail="cycles")
        det_alts = [e for e in es if e.node is uniq[3].node]
        det = det_alts[0]
        desc = dict(uniq[0].term[3]).get("connectivity")
        a = subterms(det.field("qubit_index"), lambda y: y[0] == "bound")
        a = a[0] if a else None
        aro = t_add(t_add(_last_acq(qec), ONE), _last_acq(qec, a), -1)
        ev2.set_type(desc, ev2.ann_class(g.params[1].annotation, g.module)) if desc is not None and desc[0] == "sym" else None
        nobs = ("call", "len", (_attr_of(ev2, g, desc, "observable_qubit_indices"),), ())
        ndet = ("call", "len", (_attr_of(ev2, g, desc, "detector_qubit_indices"),), ())
        nrm = lambda t: _strip_lines(devar(resolve_max(t))) if t is not None else None
        ok_ref, ok_sec = True, True
        shown_ref, shown_sec = [], []
        for val, w_ref, w_sec in ((ZERO, NONE, NONE), (ONE, t_add(aro, nobs), NONE), (t_add(K, lin({}, Fraction(2))), t_add(aro, nobs), ndet)):
            alt = [e for e in det_alts if resolve_max(subst(e.cond, {cycles: val})) == TRUE]
            if len(alt) != 1:
                ok_ref = ok_sec = False
                shown_ref.append(f"{len(alt)} alternatives for cycles={show(val)}")
                continue
            gr = alt[0].field("reference_offset")
            gs = alt[0].field("secondary_offset")
            gr = subst(gr, {cycles: val}) if gr is not None else NONE
            gs = subst(gs, {cycles: val}) if gs is not None else NONE
            shown_ref.append(f"cycles={show(val)}: {show(resolve_max(gr))[:120]}")
            shown_sec.append(f"cycles={show(val)}: {show(resolve_max(gs))[:80]}")
            ok_ref = ok_ref and nrm(gr) == nrm(subst(w_ref, {cycles: val}))
            ok_sec = ok_sec and nrm(gs) == nrm(subst(w_sec, {cycles: val}))
        rep.check(ok_ref, "C09.P2", "construct_repetition_code_circuit[final detector reference offset]", g.loc, found=shown_ref, required="(last index of the QEC part + 1 - this ancilla's last index in it) + |observable qubits| iff cycles > 0, else None",
                  what="the final detectors reference the wrong earlier ancilla measurement", detail="final-ref")
        rep.check(ok_sec, "C09.P2", "construct_repetition_code_circuit[final detector secondary offset]", g.loc, found=shown_sec, required="|detector qubits| iff cycles > 1, else None",
                  what="the final detectors do not include the round before the last for cycles > 1 (or include it for fewer)", detail="final-sec")
        es = uniq
        mt, st = det.field("main_target"), det.field("secondary_target")
        ok_t = mt is not None and st is not None and mt[0] == "attr" and st[0] == "attr" and "get_last_acquisition_operation" in show(mt) and "get_last_acquisition_operation" in show(st) \
            and subterms(mt, lambda y: y == res or y == ("sym", "?")) is not None and mt != st and _circ_arg(mt) == res and _circ_arg(st) == res
        rep.check(ok_t and det.field("last_acquisition_index") == _last_acq(res), "C09.P2", "construct_repetition_code_circuit[final detector targets]", g.loc, found=f"main {show(mt)[:90]}; secondary {show(st)[:90]}",
                  required="last acquisitions (in the whole circuit) of the ancilla's two neighbouring data qubits", what="final detectors do not pair the two neighbouring data measurements", detail="final-targets")
        ob = es[4]
        d = subterms(ob.field("qubit_index"), lambda y: y[0] == "bound")
        d = d[0] if d else None
        ok_o = ob.field("last_acquisition_index") == _last_acq(res) and ob.field("main_target") == _last_acq(res, d) and len(ob.loops) == 1 and d is not None \
            and _strip_lines(devar(ob.loops[0])) == _strip_lines(devar(_attr_of(ev2, g, desc, "observable_qubit_indices")))
        rep.check(ok_o, "C09.P2", "construct_repetition_code_circuit[observable]", g.loc, found=f"{show(ob.field('main_target'))[:100]}", required="the observable data qubit's own last measurement", what="the logical observable does not read its data qubit's final measurement", detail="observable")
    rep.floor("return paths of construct_repetition_code_circuit", n_paths, 1)


def _attr_of(ev, fn, base, name):
    try:
        return ev.attr(base, name, Frame(fn, fn.module, {}, None, 0))
    except Exception:
        return ("attr", base, name)


def _circ_arg(t: Term) -> Optional[Term]:
    c = t[1] if t[0] == "attr" else None
    if c is not None and c[0] == "call":
        return dict(c[3]).get("_circuit", c[2][0] if c[2] else None)
    return None


def _inline_props(t):
    return t


def p3(model: Model, rep: Report):
    rep.rule("C09.P3", "get_circuit_qec_round and get_circuit_qec_round_with_dynamical_decoupling emit the same gate part (activation, controlled-phase, parking, barriers, phase "
                       "updates, closure, the barrier before readout and the parity measurements), statement for statement")
    a = model.function(CC, "get_circuit_qec_round")
    b = model.function(CC, "get_circuit_qec_round_with_dynamical_decoupling")
    seqs = []
    for fn in (a, b):
        ev = Evaluator(model, inline_methods=False, opaque={x.qualname for x in model.all_functions() if x.cls is not None and x.cls.name == "IRepetitionCodeDescription"})
        ps = PathEnumerator(ev).function_paths(fn)
        rets = [p for p in ps if p.exit == "return"]
        seqs.append((fn, rets))
    base = seqs[0][1]
    if len(base) != 1:
        raise AnalysisError("get_circuit_qec_round: expected a single path")
    base_sig = [_emit_sig(e) for e in emits(base[0], base[0].value)]
    for p in seqs[1][1]:
        sig = [_emit_sig(e) for e in emits(p, p.value)]
        ok = sig[:len(base_sig)] == base_sig
        diff = next((i for i, (x, y) in enumerate(zip(sig, base_sig)) if x != y), min(len(sig), len(base_sig)))
        rep.check(ok, "C09.P3", "qec_round ~ qec_round_with_dynamical_decoupling[gate part]", b.loc, found=f"{len(sig)} vs {len(base_sig)} emits; first difference at #{diff}: {sig[diff][0] if diff < len(sig) else None} vs {base_sig[diff][0] if diff < len(base_sig) else None}",
                  required="identical emit sequence up to and including the parity measurements", what="the refocusing and the plain round differ in their gate part (one of them is wrong)", detail="sibling")
    rep.check(len(base_sig) >= 9, "C09.P3", "get_circuit_qec_round[emits]", a.loc, found=len(base_sig), required=">= 9 emit statements", what="round builder shrank", detail="size")


def _emit_sig(e: Emit):
    return (e.cls, _strip_lines(e.term), tuple(_strip_lines(l) for l in e.loops), _strip_lines(e.cond))


def p4(model: Model, rep: Report):
    rep.rule("C09.P4", "InitialStateContainer.get_operation: ZERO->Identity, ONE->Rx180, PLUS->Ry90, MINUS->Rym90, PLUS_I->Rxm90, MINUS_I->Rx90 on the given qubit, exhaustive; the data / "
                       "ancilla getters read the state of the data / ancilla container under a membership guard on that same container; get_operations of both descriptions prepares "
                       "data qubits with the data getter and data_qubit_ids, ancilla qubits with the ancilla getter and ancilla_qubit_ids")
    I = model.cls("InitialStateContainer")
    f = I.resolve("get_operation")
    ev = Evaluator(model, inline_methods=False)
    outs = ev.eval_function(f, self_cls=I)
    q, st = sym(f.param_names[1]), sym(f.param_names[2])
    members = ev.enum_members("InitialStateEnum")
    if not members:
        raise AnalysisError("InitialStateEnum not found")
    for m in members:
        hit = [o for o in outs if subst(o.cond, {st: ("enum", "InitialStateEnum", m)}) == TRUE]
        if not hit:
            # no guard names the member: the gate is looked up (table scan / next(..)); read the function again with the member as its argument
            try:
                outs_m = Evaluator(model, inline_methods=False).eval_function(f, args={f.param_names[2]: ("enum", "InitialStateEnum", m)}, self_cls=I)
            except Unsupported as e_:
                raise AnalysisError(f"InitialStateContainer.get_operation[{m}]: {e_}")
            hit = [o for o in outs_m if o.cond == TRUE]
            if len(hit) != 1 or hit[0].kind != "return" or hit[0].value is None or hit[0].value[0] not in ("new", "call") or \
                    (hit[0].value[0] == "call" and not (isinstance(hit[0].value[1], tuple) and hit[0].value[1][0] == "cls")):
                raise AnalysisError(f"InitialStateContainer.get_operation[{m}]: the gate of the state is looked up in a way that is not read ({[str(o)[:80] for o in outs_m][:2]})")
        want = STATE_TABLE.get(m)
        ok = len(hit) == 1 and hit[0].kind == "return" and want is not None
        found = None
        if len(hit) == 1 and hit[0].kind == "return":
            v = subst(hit[0].value, {st: ("enum", "InitialStateEnum", m)})
            cls_name = v[1] if v[0] == "new" else (v[1][1] if v[0] == "call" and isinstance(v[1], tuple) and v[1][0] == "cls" else None)
            args = (dict(v[2]).get("qubit_index") if v[0] == "new" else (v[2][0] if v[2] else None))
            found = f"{cls_name}({show(args) if args else ''})"
            ok = ok and cls_name == want and args == q
        rep.check(ok, "C09.P4", f"InitialStateContainer.get_operation[{m}]", f.loc, found=found or [str(o) for o in hit], required=f"{want}(qubit_index)", what=f"initial state {m} is prepared with the wrong gate (or on the wrong qubit)", detail=f"state:{m}")
    for getter, container in (("get_data_qubit_operation", "initial_states"), ("get_ancilla_qubit_operation", "ancilla_initial_states")):
        g = I.resolve(getter)
        ev2 = Evaluator(model, inline_methods=True, opaque={"InitialStateContainer.get_operation"})
        outs = ev2.eval_function(g, self_cls=I)
        s = sym(g.self_name)
        qi, si = sym(g.param_names[1]), sym(g.param_names[2])
        cont = ("attr", s, container)
        guard = ("in", si, cont)
        ok = True
        found = []
        for present, want_state in ((True, ("sub", cont, si)), (False, ("enum", "InitialStateEnum", "ZERO"))):
            hit = [o for o in outs if subst(o.cond, {guard: const(present)}) == TRUE]
            if len(hit) != 1 or hit[0].kind != "return":
                ok = False
                found.append(f"{len(hit)} outcomes when the state is {'given' if present else 'absent'} (guard on another container?)")
                continue
            v = subst(hit[0].value, {guard: const(present)})
            kw = dict(v[3]) if v[0] == "call" else {}
            got_state = kw.get("initial_state")
            found.append(f"{'given' if present else 'absent'}: state {show(got_state) if got_state else None}")
            if not (v[0] == "call" and "get_operation" in show(v[1]) and kw.get("qubit_index") == qi and got_state == want_state):
                ok = False
        rep.check(ok, "C09.P4", f"InitialStateContainer.{getter}", g.loc, found=found, required=f"state = self.{container}[index] if index in self.{container} else ZERO; get_operation(qubit_index, state)",
                  what="a requested initial state is read from the wrong container or under a guard on another one", detail=getter)
    for cname in ("RepetitionCodeDescription", "CompositeRepetitionCodeDescription"):
        C = model.cls(cname)
        g = C.resolve("get_operations")
        if g is None or "abstractmethod" in g.decorators:
            continue
        ev3 = Evaluator(model, inline_methods=False)
        ps = PathEnumerator(ev3).function_paths(g, self_cls=C)
        s = sym(g.self_name)
        init = sym(g.param_names[1])
        from ..listflow import contents
        from .common import devar, star_segments

        def seg_comps(t, depth=0):
            """the comprehensions a list is made of; a group delegated to another method of the description is read there"""
            t = devar(t)
            if t[0] in ("list", "tuple") and any(x[0] == "star" for x in t[1]):
                return [c for sg in star_segments(t) for c in seg_comps(sg, depth)]
            if t[0] == "comp":
                return [t]
            if t[0] == "concat":
                return [c for sg in t[1] for c in seg_comps(sg, depth)]
            if t[0] == "call" and isinstance(t[1], tuple) and t[1][0] == "attr" and t[1][1] == s and depth < 2:
                h = C.resolve(t[1][2])
                if h is not None and "abstractmethod" not in h.decorators:
                    try:
                        hv = Evaluator(model, inline_methods=False).value_of(h, self_cls=C)
                    except Unsupported:
                        return []
                    given = dict(t[3])
                    hp = [n_ for n_ in h.param_names if n_ != h.self_name]
                    given.update(dict(zip(hp, t[2])))
                    mp = {sym(h.self_name): s}
                    mp.update({sym(k_): v_ for k_, v_ in given.items() if k_ != "**"})
                    return seg_comps(subst(hv, mp), depth + 1)
            return []
        for p in [q_ for q_ in ps if q_.exit == "return"]:
            if p.value is not None and p.value[0] == "var":
                segs = contents(p, p.value) or []
            else:
                segs = [p.value] if p.value is not None else []
            comps = [c for sg in segs for c in seg_comps(sg)]
            wiring = []
            for comp in comps:
                elt = comp[2]
                it = comp[3][0][0]
                kind = "data" if "get_data_qubit_operation" in show(elt) else "ancilla" if "get_ancilla_qubit_operation" in show(elt) else "?"
                ids = "data_qubit_ids" if ".data_qubit_ids" in show(elt) or "data_qubit_ids[" in show(elt) else "ancilla_qubit_ids" if "ancilla_qubit_ids" in show(elt) else "?"
                src = it[1] if it[0] == "keys" else it
                keys = src[2] if src[0] == "attr" and src[1] == init else "?"
                wiring.append((kind, ids, keys))
            want = [("data", "data_qubit_ids", "initial_states"), ("ancilla", "ancilla_qubit_ids", "ancilla_initial_states")]
            rep.check(sorted(wiring) == sorted(want), "C09.P4", f"{cname}.get_operations", g.loc, found=wiring, required=want,
                      what="ancilla (or data) qubits are prepared with the other kind's getter / identifiers / keys: requested states are silently not prepared", detail="wiring")


def p5(model: Model, rep: Report):
    """The refocusing option reaches the round builder: description flag -> echo block guard."""
    R = model.cls("RepetitionCodeDescription")
    f = R.resolve("contains_qubit_refocusing")
    v = Evaluator(model).value_of(f, self_cls=R)
    rep.check(v == ("attr", sym(f.self_name), "_qubit_refocusing"), "C09.P5", "RepetitionCodeDescription.contains_qubit_refocusing", f.loc, found=show(v), required="self._qubit_refocusing", what="the description does not report the requested refocusing option", detail="flag")
    for name in ("from_chain",):
        g = R.resolve(name)
        ev = Evaluator(model, inline_methods=False)
        ps = PathEnumerator(ev).function_paths(g, self_cls=R)
        for p in [q for q in ps if q.exit == "return"]:
            d = dict(p.value[2]) if p.value is not None and p.value[0] == "new" else {}
            rep.check(d.get("_qubit_refocusing") == sym("qubit_refocusing"), "C09.P5", f"RepetitionCodeDescription.{name}[refocusing flag]", g.loc, found=show(d.get("_qubit_refocusing")) if d.get("_qubit_refocusing") else "not passed",
                      required="qubit_refocusing", what="a chain description ignores the refocusing option", detail=f"flag:{name}")
    b = model.function(CC, "get_circuit_qec_round_with_dynamical_decoupling")
    ev = Evaluator(model, inline_methods=False, opaque={x.qualname for x in model.all_functions() if x.cls is not None and x.cls.name == "IRepetitionCodeDescription"})
    ps = PathEnumerator(ev).function_paths(b)
    conn = sym(b.param_names[0])
    flag = ("attr", conn, "contains_qubit_refocusing")
    for p in [q for q in ps if q.exit == "return"]:
        es = emits(p, p.value)
        echo = [e for e in es if e.cls in ("Wait", "Rx180") and e.loops and "rotation_data_qubit_indices" in show(e.loops[-1])]
        if subst(p.cond, {flag: TRUE}) == TRUE:
            seq = [e.cls for e in echo]
            ok = seq == ["Wait", "Rx180", "Wait"]
            rep.check(ok, "C09.P5", "qec_round_with_dynamical_decoupling[echo when refocusing]", b.loc, found=seq, required=["Wait", "Rx180", "Wait"], what="data qubits are not flipped once per refocusing round", detail="echo")
        elif subst(p.cond, {flag: FALSE}) == TRUE:
            rep.check(not echo, "C09.P5", "qec_round_with_dynamical_decoupling[no echo without refocusing]", b.loc, found=[e.cls for e in echo], required="no refocusing flips", what="data qubits are flipped although refocusing is switched off", detail="no-echo")


# ---------------------------------------------------------------------------------------------
def p6(model: Model, rep: Report):
    rep.rule("C09.P6", "what the round builders are told about a layer: get_gate_sequence_indices(i) == [(index(e.q0), index(e.q1)) for every edge e of layer i]; "
                       "get_park_sequence_indices(i) == [index(p.identifier) for every park p of layer i whose qubit is part of the code]; get_active_ancilla_indices(i) == "
                       "[index(q) for every edge of layer i for q in its qubits if q is a rotation ancilla]; None exactly when i is outside 0 <= i < number of layers")
    from ..listflow import as_single_comp
    from ..extreme import fuse_comprehensions
    from ..sym import equivalent, t_and
    C = model.cls("IRepetitionCodeDescription")
    for name in ("get_gate_sequence_indices", "get_park_sequence_indices", "get_active_ancilla_indices"):
        f = C.resolve(name)
        # small pure helpers of the description class (e.g. a shared range guard) are seen through; the abstract interface stays symbolic
        ev = Evaluator(model, inline_methods=True, opaque={x.qualname for x in model.all_functions() if x.cls is None or x.cls.name != "IRepetitionCodeDescription"
                                                           or x.name in ("qubit_ids", "gate_sequences", "map_qubit_id_to_circuit_index")})
        ps = [p for p in PathEnumerator(ev).function_paths(f, self_cls=C) if p.exit == "return"]
        s = sym(f.self_name)
        i = sym([n for n in f.param_names if n != f.self_name][0])
        seqs = ("attr", s, "gate_sequences")
        inrange = t_and(t_cmp(">=", i, ZERO), t_cmp(">", t_add(("call", "len", (seqs,), ()), i, -1), ZERO))
        layer = ("sub", seqs, i)
        construct = f"IRepetitionCodeDescription.{name}"
        nones = [p for p in ps if p.value == NONE]
        rest = [p for p in ps if p.value != NONE]
        ok_rng = len(nones) == 1 and len(rest) == 1 and equivalent(nones[0].cond, t_not(inrange), ev.enum_members) is None and equivalent(rest[0].cond, inrange, ev.enum_members) is None
        rep.check(ok_rng, "C09.P6", construct + "[range]", f.loc, found=[f"{show(p.value)[:30]} if {show(p.cond)[:100]}" for p in ps], required="None iff not (0 <= i < len(gate_sequences))",
                  what="a layer index is answered for a layer that does not exist, or an existing layer (e.g. the last one) is reported as missing", detail=f"range:{name}")
        if len(rest) != 1:
            continue
        p = rest[0]
        comp = devar(fuse_comprehensions(as_single_comp(p, p.value)))
        bad = []
        mapped = lambda t: t[0] == "call" and t[1] == ("attr", s, "map_qubit_id_to_circuit_index") and len(list(t[2]) + list(t[3])) == 1

        def arg(t):
            return (list(t[2]) + [x for _, x in t[3]])[0]

        def is_edges(dom):
            d = devar(dom)
            if d == ("attr", layer, "edge_ids"):
                return True
            if d[0] == "call" and d[1] == ("fn", "array_manipulation.unique_in_order"):
                d = devar((list(d[2]) + [x for _, x in d[3]])[0])
            return d[0] == "comp" and len(d[3]) == 1 and not d[3][0][1] and d[3][0][0] in (("attr", layer, "_gate_operations"), ("attr", layer, "gate_operations")) \
                and d[2] == ("attr", subterms(d[2], lambda y: y[0] == "bound")[0], "identifier") if subterms(d[2], lambda y: y[0] == "bound") else False
        if comp[0] != "comp":
            raise AnalysisError(f"{construct}: the result is not read as a listing ({show(p.value)[:100]})")
        gens = comp[3]
        if name == "get_gate_sequence_indices":
            ok = len(gens) == 1 and not gens[0][1] and is_edges(gens[0][0]) and comp[2][0] == "tuple" and len(comp[2][1]) == 2 and all(mapped(x) for x in comp[2][1])
            if ok:
                b = [y for y in subterms(comp[2], lambda y: y[0] == "bound")]
                ok = len(b) == 1 and [arg(x) for x in comp[2][1]] == [("sub", ("attr", b[0], "qubit_ids"), ZERO), ("sub", ("attr", b[0], "qubit_ids"), ONE)]
            if not ok:
                bad.append(f"pairs are {show(comp)[:160]}")
        elif name == "get_park_sequence_indices":
            ok = len(gens) == 1 and gens[0][0] in (("attr", layer, "_park_operations"), ("attr", layer, "park_operations")) and mapped(comp[2])
            if ok:
                b = subterms(comp[2], lambda y: y[0] == "bound")
                ident = ("attr", b[0], "identifier") if len(b) == 1 else None
                ok = ident is not None and arg(comp[2]) == ident and list(gens[0][1]) in ([("in", ident, ("attr", s, "qubit_ids"))], [])
            if not ok:
                bad.append(f"parks are {show(comp)[:160]}")
        else:
            ok = len(gens) == 2 and not gens[0][1] and is_edges(gens[0][0]) and mapped(comp[2])
            if ok:
                qb = arg(comp[2])
                b0 = [y for y in subterms(gens[1][0], lambda y: y[0] == "bound")]
                ok = qb[0] == "bound" and len(b0) == 1 and gens[1][0] == ("attr", b0[0], "qubit_ids") and len(gens[1][1]) == 1
                if ok:
                    cnd = gens[1][1][0]
                    anc = ev.attr(s, "rotation_ancilla_qubit_ids", Frame(f, f.module, {}, C, 0))
                    ok = cnd[0] == "in" and cnd[1] == qb and _strip_lines(devar(cnd[2])) == _strip_lines(devar(anc))
            if not ok:
                bad.append(f"active ancillas are {show(comp)[:200]}")
        rep.check(not bad, "C09.P6", construct, f.loc, found="; ".join(bad) or "as specified", required="every edge / park / ancilla of the layer, mapped to circuit indices, nothing else",
                  what="the round builder is told the wrong qubits for a layer (gates, parks or basis rotations land on other qubits, or are dropped): " + "; ".join(bad), detail=f"layer-info:{name}")
