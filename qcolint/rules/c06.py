"""C06 -- applying repetition modifiers unrolls n back-to-back copies, once.

U1  order of effects in apply_modifiers_to_self: repeat(times = own count), then reset the count to a fixed 1 (on every path),
    then recurse into EVERY node of the graph as it is after the repeat.
U2  repeat(): times - 1 iterations, each extending with a fresh copy of a snapshot taken before the loop.
U3  chaining of the copies = C01.R4 (latest of group) + C01.R7 (extend hand-over).
U4  leaves are untouched: every leaf apply_modifiers_to_self is `return self` without effects; DeclarativeCircuit.apply_modifiers
    delegates to the structure; repetition strategies report the configured count.
Multiplicativity and idempotence follow by induction (counts are 1 after the first pass => range(0)).
"""
from __future__ import annotations

import ast
from fractions import Fraction
from typing import List, Optional

from ..model import AnalysisError, Model
from ..paths import Path, PathEnumerator, find_calls
from ..report import Report
from ..sym import NONE, TRUE, Evaluator, Frame, Term, Unsupported, atoms_of, lin, number, show, sym, t_add, t_cmp, t_not
from .c01 import _implies, r4, r7
from .c05 import check_repeat
from .common import call_args, effect_calls, is_call_of, node_iterator_domain, norm_stmt, share_rule, strip_identity_wrappers


def check(model: Model, rep: Report, tier: str):
    from .c05 import _k1_k2 as _k12
    from .common import share_rule as _sh
    with rep.isolated():
        _sh(rep, model, _k12, "C06.U9", "copies 2..n of an unrolled block are made with copy(): copy() of every operation class builds that same class with the same fields "
            "(= C05.K1/K2), so the unrolled listing is the n-fold concatenation of the block's own kinds")
    with rep.isolated():
        u1(model, rep)
    with rep.isolated():
        u2(model, rep)
    with rep.isolated():
        share_rule(rep, model, r4, "C06.U3", "each copy starts when the latest-ending leaf of what precedes it has ended: MultiRelationLink picks the latest "
                   "member of the whole group (= C01.R4) and extend() chains every head of the appended copy to all current leaves (= C01.R7)")
    with rep.isolated():
        share_rule(rep, model, r7, "C06.U3", "")
    rep.rules_text["C06.U3"] = ("each copy starts when the latest-ending leaf of what precedes it has ended: MultiRelationLink picks the latest member of "
                                "the whole group (= C01.R4) and extend() chains every head of the appended copy to all current leaves (= C01.R7)")
    with rep.isolated():
        u4(model, rep)
    with rep.isolated():
        u5(model, rep)
    with rep.isolated():
        from .c03 import h7 as _h7
        from ..effects import Effects as _Eff
        from ..resolve import CallGraph as _CG
        _cg = _CG(model)
        _h7(model, rep, _cg, _Eff(model, _cg), rule="C06.U7", keep=lambda f: "/structure/" in f.module.relpath)
    from .common import instance_state_rule
    with rep.isolated():
        instance_state_rule(model, rep, "C06.U6", "the count a block is unrolled into is the one ITS registry provides: the table of a repetition registry (and any state of a "
                            "repetition strategy) is bound per instance, not a class-level container shared by all registries",
                            keep=lambda c: "repetition" in c.module.relpath.split("/")[-1] and "structure" in c.module.relpath)


def u5(model: Model, rep: Report):
    """U5: the count that drives unrolling is the configured one *now*: no memo between the repetition registry and repeat()."""
    rep.rule("C06.U5", "the repetition count used by apply_modifiers is the count configured at that moment: every memoised function on the path from "
                       "apply_modifiers_to_self to the repetition strategies / registry is invalidated by each writer of what it reads (= C03.H1 restricted to that path)")
    from ..effects import Effects
    from ..resolve import CallGraph
    from .c03 import h1, memo_functions
    cg = CallGraph(model)
    K = model.cls("CircuitCompositeOperation")
    roots = [K.resolve("apply_modifiers_to_self")] + [f for f in (K.properties.get("nr_of_repetitions"),) if f is not None]
    reach = set(cg.reachable(roots))
    memos = [m for m in memo_functions(model) if m in reach]
    rep.analysed["C06.U5 functions reachable from unrolling"] = len(reach)
    if not memos:
        rep.ok("C06.U5", "CircuitCompositeOperation.apply_modifiers_to_self[memoised callees]", roots[0].loc, found=f"no memoised function among {len(reach)} reachable functions",
               required="none, or each invalidated by the writers of what it reads")
        return
    sub = Report(rep.prop_id, rep.tier, rep.src_root, quiet=True, write=False)
    h1(model, sub, cg, Effects(model, cg))
    tails = tuple(f"read by {m.qualname}]" for m in memos)
    n = 0
    for o in sub.obligations:
        if o["construct"].endswith(tails):
            o = dict(o)
            o["rule"] = "C06.U5"
            rep.obligations.append(o)
            n += 1
    if n == 0:
        # a memo on the path whose reads have no writer at all cannot go stale
        rep.ok("C06.U5", "CircuitCompositeOperation.apply_modifiers_to_self[memoised callees]", roots[0].loc, found=f"{[m.qualname for m in memos]}: nothing they read is written outside constructors",
               required="none, or each invalidated by the writers of what it reads")


def u1(model: Model, rep: Report):
    rep.rule("C06.U1", "CircuitCompositeOperation.apply_modifiers_to_self: repeat(times=<own repetition count>) on every path where the count can "
                       "exceed 1; then repetition_strategy := FixedRepetitionStrategy(1) on EVERY path; then apply_modifiers_to_self() on every node of the "
                       "graph as it is after the repeat (unconditional); returns self")
    K = model.cls("CircuitCompositeOperation")
    f = K.resolve("apply_modifiers_to_self")
    ev = Evaluator(model, inline_methods=False, opaque={"CircuitCompositeOperation.nr_of_repetitions"})
    paths = PathEnumerator(ev).function_paths(f, self_cls=K)
    s = sym(f.self_name)
    construct = "CircuitCompositeOperation.apply_modifiers_to_self"
    count = ("attr", s, "nr_of_repetitions")
    n = 0
    for p in [q for q in paths if q.exit in ("return", "fall")]:
        n += 1
        evs = p.events
        pid = show(p.cond)
        rep.check(p.value == s, "C06.U1", construct + "[returns-self]", f.loc, found=show(p.value) if p.value else None, required="self", what="modifiers are not applied in place", detail="return")
        idx_repeat = [i for i, e in enumerate(evs) if e.kind == "effect" and [c for c in find_calls(e.term, "repeat") if c[1][1] == s]]
        idx_reset = [i for i, e in enumerate(evs) if e.kind == "store" and e.term[1] == s and e.term[2] == "repetition_strategy"]
        idx_loop = [i for i, e in enumerate(evs) if e.kind == "loop"]
        # repeat
        if idx_repeat:
            c = [c for c in find_calls(evs[idx_repeat[0]].term, "repeat") if c[1][1] == s][0]
            a, kw = call_args(c)
            arg = (list(a) + list(kw.values()) + [None])[0]
            rep.check(len(idx_repeat) == 1 and arg == count, "C06.U1", construct + "[repeat-count]", f.loc, found=show(c), required=f"self.repeat(times={show(count)}) once",
                      what="the block is not repeated its own repetition count", detail="repeat-arg")
            # the count must be read before it is reset
            if idx_reset and idx_reset[0] < idx_repeat[0]:
                arg_node = _call_arg_node(evs[idx_repeat[0]].node, "repeat")
                read_late = not isinstance(arg_node, ast.Name)
                rep.check(not read_late, "C06.U1", construct + "[order]", f.loc, found="count reset before repeat() reads it", required="read the count, repeat, then reset",
                          what="the repetition count is reset before it is consumed: nothing is unrolled", detail="order")
        else:
            ok = _implies(ev, p.cond, t_not(t_cmp(">", count, lin({}, Fraction(1)))))
            rep.check(ok, "C06.U1", construct + "[repeat-present]", f.loc, found=f"no repeat() on path [{pid}]", required="repeat() whenever the count can exceed 1",
                      what="a block with a repetition count above 1 is not unrolled on some path", detail="repeat-missing")
        # reset
        ok_reset = False
        if idx_reset:
            v = evs[idx_reset[-1]].term[3]
            ok_reset = v[0] == "new" and v[1] == "FixedRepetitionStrategy" and number(dict(v[2]).get("repetitions", lin({}, Fraction(1)))) == 1
        rep.check(ok_reset, "C06.U1", construct + "[reset]", f.loc, found=(show(evs[idx_reset[-1]].term) if idx_reset else f"no reset on path [{pid}]"),
                  required="self.repetition_strategy = FixedRepetitionStrategy(repetitions=1) on every path",
                  what="the repetition count is not reset to a fixed 1 on every path: a registry / dynamic count stays live and a second apply unrolls again",
                  detail="reset")
        # recursion
        if len(idx_loop) != 1:
            rep.fail("C06.U1", construct + "[recursion]", f.loc, found=f"{len(idx_loop)} loops", required="one loop over all nodes", what="nested blocks are not unrolled", detail="recursion-shape")
            continue
        lp = evs[idx_loop[0]]
        term = lp.term
        when = idx_loop[0]
        if term[0] == "var":
            # a pre-collected list: evaluated where it was bound
            binds = [i for i, e in enumerate(evs) if e.kind == "assign" and e.extra == term[1]]
            when = binds[-1] if binds else -1
            term = term[3]
        dom = node_iterator_domain(term)
        base = strip_identity_wrappers(term)
        if base[0] == "comp" and len(base[3]) == 1:
            base = strip_identity_wrappers(base[3][0][0])
        on_graph = dom == "ALL" and base[0] == "call" and base[1][1] == ("attr", s, "_circuit_graph")
        after_repeat = (not idx_repeat) or when > idx_repeat[0]
        rep.check(on_graph and after_repeat, "C06.U1", construct + "[recursion-domain]", f.loc,
                  found=f"{show(lp.term)} -> {dom}" + ("" if after_repeat else " (collected before repeat(): the appended copies are not visited)"),
                  required="all nodes of self._circuit_graph, evaluated after the repeat", what="sub-circuits inside the appended copies (or some nodes) are never unrolled: nested counts do not multiply",
                  detail="recursion-domain")
        elem = ("bound", "for", lp.node.lineno, show(lp.term))
        bad = []
        for bp in lp.extra["paths"]:
            calls = [c for e in bp.events if e.kind == "effect" for c in find_calls(e.term, "apply_modifiers_to_self")]
            ok_recv = len(calls) == 1 and (calls[0][1][1] == ("attr", elem, "operation") or calls[0][1][1] == elem)
            if not ok_recv or atoms_of(bp.cond) or bp.exit not in ("fall", "continue"):
                bad.append(f"[{show(bp.cond)}] {len(calls)} call(s), exit {bp.exit}")
        rep.check(not bad, "C06.U1", construct + "[recursion-unconditional]", f.loc, found="; ".join(bad) or "apply_modifiers_to_self() on every node", required="unconditional recursion into every node",
                  what="some nested blocks are skipped when unrolling", detail="recursion-conditional")
        if idx_reset and idx_loop and idx_repeat:
            rep.check(idx_repeat[0] < idx_loop[0], "C06.U1", construct + "[repeat-before-recursion]", f.loc, found="order of effects", required="repeat before recursing",
                      what="recursion happens before the copies exist", detail="order2")
    rep.floor("normal exits of apply_modifiers_to_self", n, 1)
    # the count itself
    g = K.properties.get("nr_of_repetitions")
    if g is None:
        raise AnalysisError("CircuitCompositeOperation.nr_of_repetitions not found")
    v = Evaluator(model, inline_methods=False).value_of(g, self_cls=K)
    gs = sym(g.self_name)
    ok = is_call_of(v, "get_repetition_number") and v[1][1] == ("attr", gs, "repetition_strategy")
    rep.check(ok, "C06.U1", "CircuitCompositeOperation.nr_of_repetitions", g.loc, found=show(v), required="self.repetition_strategy.get_repetition_number(self)",
              what="the block does not report the count of its repetition strategy", detail="count")


def _call_arg_node(stmt: ast.AST, name: str) -> Optional[ast.expr]:
    for n in ast.walk(stmt):
        if isinstance(n, ast.Call) and isinstance(n.func, ast.Attribute) and n.func.attr == name:
            if n.args:
                return n.args[0]
            if n.keywords:
                return n.keywords[0].value
    return None


def u2(model: Model, rep: Report):
    rep.rule("C06.U2", "CircuitCompositeOperation.repeat(times): exactly times - 1 iterations, each performing one extend with a fresh copy of the "
                       "snapshot taken before the loop")
    r = check_repeat(model, rep, "C06.U2")
    if r is None:
        raise AnalysisError("repeat(): loop not recognised")
    lp, times, f = r
    it = lp.term
    construct = "CircuitCompositeOperation.repeat[iterations]"
    cnt: Optional[Term] = None
    if it[0] == "call" and it[1] == "range" and not it[3]:
        if len(it[2]) == 1:
            cnt = it[2][0]
        elif len(it[2]) == 2:
            cnt = t_add(it[2][1], it[2][0], -1)
    want = t_add(times, lin({}, Fraction(1)), -1)
    rep.check(cnt == want, "C06.U2", construct, f.loc, found=show(it), required=f"range({show(want)})", what="the block is not appended exactly times - 1 times (n copies in total)",
              detail="iterations")


def u4(model: Model, rep: Report):
    rep.rule("C06.U4", "every leaf class: apply_modifiers_to_self is `return self` with no effect; DeclarativeCircuit.apply_modifiers hands the structure's "
                       "own apply_modifiers_to_self() result to the returned circuit; fixed / registry repetition strategies report the configured count")
    ico = model.cls("ICircuitOperation")
    K = model.cls("CircuitCompositeOperation")
    n = 0
    for C in model.subclasses(ico, concrete_only=True):
        if C is K:
            continue
        g = C.resolve("apply_modifiers_to_self")
        if g is None or "abstractmethod" in g.decorators:
            raise AnalysisError(f"{C.name}: no apply_modifiers_to_self")
        ev = Evaluator(model)
        outs = ev.eval_function(g, self_cls=C)
        n += 1
        ok = len(outs) == 1 and outs[0].kind == "return" and outs[0].value == sym(g.self_name) and not ev.effects
        rep.check(ok, "C06.U4", f"{C.name}.apply_modifiers_to_self", g.loc, found=[str(o) for o in outs] + [norm_stmt(e[1]) for e in ev.effects], required="return self, nothing else",
                  what="applying modifiers touches a leaf operation", detail="leaf")
    rep.floor("leaf classes", n, 26)
    D = model.cls("DeclarativeCircuit")
    f = D.resolve("apply_modifiers")
    ev = Evaluator(model, inline_methods=False)
    ps = PathEnumerator(ev).function_paths(f, self_cls=D)
    s = sym(f.self_name)
    for p in [q for q in ps if q.exit == "return"]:
        v = p.value
        ok = v is not None and v[0] == "new" and v[1] == "DeclarativeCircuit"
        st = dict(v[2]).get("_structure") if ok else None
        want = ("call", ("attr", ("attr", s, "_structure"), "apply_modifiers_to_self"), (), ())
        rep.check(ok and st == want, "C06.U4", "DeclarativeCircuit.apply_modifiers", f.loc, found=show(st) if st else show(v), required="result._structure = self._structure.apply_modifiers_to_self()",
                  what="the circuit returned by apply_modifiers does not carry the unrolled structure", detail="delegate")
    # strategies
    FS = model.cls("FixedRepetitionStrategy")
    g = FS.resolve("get_repetition_number")
    v = Evaluator(model).value_of(g, self_cls=FS)
    flds = [n_ for n_, fi in FS.all_fields().items() if fi.init]
    rep.check(len(flds) == 1 and v == ("attr", sym(g.self_name), flds[0]), "C06.U4", "FixedRepetitionStrategy.get_repetition_number", g.loc, found=show(v), required=f"self.{flds[0] if flds else '?'}",
              what="a fixed repetition strategy does not report its count", detail="fixed")
    fi = FS.all_fields().get(flds[0]) if flds else None
    rep.check(fi is not None and fi.default is not None and ast.unparse(fi.default) == "1", "C06.U4", "FixedRepetitionStrategy.repetitions[default]", FS.loc, found=ast.unparse(fi.default) if fi and fi.default else None, required="1",
              what="a block without explicit count is not executed exactly once", detail="default")
    RS = model.cls("RegistryRepetitionStrategy")
    g = RS.resolve("get_repetition_number")
    v = Evaluator(model, inline_methods=False).value_of(g, self_cls=RS)
    gs = sym(g.self_name)
    ok = is_call_of(v, "get_registry_at") and v[1][1] == ("attr", gs, "registry") and (list(v[2]) + [x for _, x in v[3]]) == [("attr", gs, "registry_key")]
    rep.check(ok, "C06.U4", "RegistryRepetitionStrategy.get_repetition_number", g.loc, found=show(v), required="self.registry.get_registry_at(key=self.registry_key)",
              what="a registry-provided count is not read from its registry entry", detail="registry")
