"""C05 -- copies are faithful and independent.

K1  every concrete ICircuitOperation / IRelationLink / IAcquisitionStrategy class: MRO-resolved copy() returns a
    construction of the class itself passing every init-field (same value, or .copy(<lookup>) for link/strategy).
K2  the relation field of the copy is self.relation.copy(<the same lookup>) -- constructor argument or assigned
    on the new object before it is returned.
K3  CircuitCompositeOperation.copy: whole node iterator; per node copy-with-lookup, register, add -- unconditional,
    in this order; RelationLink / MultiRelationLink.copy map references through the lookup.
K4  classes used as lookup keys are hashable and their generated equality can tell two members of one circuit apart.
K5  fresh structure: new graph per instance, add_sub_circuit nests the copy, repeat extends with fresh copies.
K6  RegistryAcquisitionStrategy.copy re-targets the registry through the lookup, defaulting to the old circuit.
"""
from __future__ import annotations

import ast
from typing import Dict, List, Optional, Tuple

from ..model import AnalysisError, ClassInfo, FunctionInfo, Model
from ..paths import Path, PathEnumerator, find_calls
from ..report import Report
from ..sym import NONE, Evaluator, Term, Unsupported, atoms_of, show, subterms, sym, t_not
from .common import (call_arg, call_args, effect_calls, function_paths, is_call_of, lookup_or, lookup_or_same, lookup_param_ok, loop_of,
                     node_iterator_domain, norm_stmt, stores, strip_identity_wrappers)

VALUE_WRAPPERS = ("list", "tuple", "dict", "set", "frozenset")


def copy_families(model: Model) -> List[Tuple[str, List[ClassInfo]]]:
    fams = []
    for iface in ("ICircuitOperation", "IRelationLink", "IAcquisitionStrategy"):
        fams.append((iface, model.subclasses(model.cls(iface), concrete_only=True)))
    return fams


def lookup_param_of(fn: FunctionInfo) -> str:
    names = [p for p in fn.param_names if p != fn.self_name]
    if len(names) != 1:
        raise AnalysisError(f"{fn.qualname}: expected exactly one lookup parameter, found {names}")
    return names[0]


def field_kind(ev: Evaluator, model: Model, f) -> str:
    c = ev.ann_class(f.annotation, f.owner.module)
    if c is not None:
        if c.is_subclass_of(model.cls("IRelationLink")):
            return "link"
        if c.is_subclass_of(model.cls("IAcquisitionStrategy")):
            return "strategy"
    return "value"


def link_reference_field(ev: Evaluator, L: ClassInfo) -> str:
    """The init-field of a link class that holds the referenced operation(s): the one that is not an enumeration."""
    cands = []
    for n, fi in L.all_fields().items():
        if not fi.init:
            continue
        T = ev.ann_class(fi.annotation, fi.owner.module)
        if T is not None and ev.is_enum(T):
            continue
        cands.append(n)
    if len(cands) != 1:
        raise AnalysisError(f"{L.name}: cannot identify the reference field among {list(L.all_fields())}")
    return cands[0]


def is_copy_with_lookup(v: Term, self_t: Term, fname: str, param: str) -> Tuple[bool, str]:
    if not (v[0] == "call" and isinstance(v[1], tuple) and v[1][0] == "attr" and v[1][2] == "copy"):
        return False, "not a .copy(...) of the original field"
    if v[1][1] != ("attr", self_t, fname):
        return False, f"copies {show(v[1][1])} instead of self.{fname}"
    args, kw = call_args(v)
    given = list(args) + list(kw.values())
    if len(given) != 1:
        return False, "the lookup is not handed to .copy()"
    if not lookup_param_ok(given[0], param):
        return False, f"hands {show(given[0])} to .copy() instead of the lookup '{param}'"
    return True, ""


def is_same_value(v: Term, self_t: Term, fname: str) -> bool:
    if v == ("attr", self_t, fname):
        return True
    # defensive shallow copies of plain values keep the value
    if v[0] == "call" and v[1] in VALUE_WRAPPERS and len(v[2]) == 1 and not v[3]:
        return is_same_value(v[2][0], self_t, fname)
    if v[0] == "call" and isinstance(v[1], tuple) and v[1][0] == "attr" and v[1][2] == "copy" and not v[2] and not v[3]:
        return is_same_value(v[1][1], self_t, fname)
    if v[0] == "comp" and len(v[3]) == 1 and not v[3][0][1]:
        gen_iter = v[3][0][0]
        return is_same_value(gen_iter, self_t, fname) and v[2][0] == "bound"
    return False


def check(model: Model, rep: Report, tier: str):
    with rep.isolated():
        _k1_k2(model, rep)
    with rep.isolated():
        _k3(model, rep)
    with rep.isolated():
        _k4(model, rep)
    with rep.isolated():
        _k5(model, rep)
    with rep.isolated():
        _k6(model, rep)
    from .c01 import r7
    from .common import share_rule
    with rep.isolated():
        share_rule(rep, model, r7, "C05.K7", "an implicit copy made by repeat() keeps the block's own relative schedule: extend() gives all relation-less heads of "
                   "the appended copy ONE chain link, computed before the loop, over all current leaves (= C01.R7); decomposed_operations hands the "
                   "block link to exactly the heads")
    from .c02 import l7
    with rep.isolated():
        share_rule(rep, model, l7, "C05.K8", "nesting a circuit copies it, whichever way it is handed over: add() routes every sub-circuit (a declarative circuit or a bare structure) "
                   "to the copying path add_sub_circuit before the plain-operation case, and that path nests operation.copy(..), not the object (= C02.L7); otherwise the "
                   "parent and the original share one object and a change to either shows in both")
    with rep.isolated():
        k10(model, rep)
    from .c06 import u1
    with rep.isolated():
        share_rule(rep, model, u1, "C05.K9", "the copies a repetition appends end up with the same operation sequence as the block they were copied from: apply_modifiers_to_self "
                   "unrolls the nested blocks of EVERY copy -- it recurses over all nodes of the graph as it is after repeat() (= C06.U1 recursion)",
                   keep=lambda o: "recursion" in o["construct"] or "recursion" in o.get("detail", ""))
    from .c04 import duration_rule as _d
    with rep.isolated():
        share_rule(rep, model, _d, "C05.K11", "a copy reports the duration of its original wherever it is placed: a block's duration is its latest end minus its earliest start, over "
                   "all its operations (= C04.D1/D2) -- once a listing has handed the block's relation to its heads the inner times are absolute, and a 'duration' that is only the "
                   "latest end makes the copy nested behind other operations longer than the stand-alone original")


# Reviewed sites where one operation is given the link OBJECT another operation holds (function qualname -> why it is there).
LINK_SHARING_SITES = {
    "CircuitCompositeOperation.decomposed_operations": "the block hands its own link to its relation-less heads while listing (C01.R7); the recorded finding C03.H2 / C05.K4 is about this site",
}


def k10(model: Model, rep: Report, rule: str = "C05.K10"):
    """An operation never receives the link object of another operation, except at the reviewed hand-over."""
    rep.rule(rule, "operations are told apart by their relation link (K4): on no path does a function store the link OBJECT held by one operation into another operation "
                   "(the stored value evaluates to <other>.relation_link), except the reviewed hand-over in decomposed_operations -- a second sharing site makes a nested "
                   "block equal to its parent (or to a sibling) as a key of the copy lookup, and acquisitions of later siblings lose their registry (index -1)")
    from .common import devar, syntactic_callers
    from ..sym import is_private_helper
    LINK_ATTRS = ("relation_link", "relation", "_relation")
    examined = 0
    seen = set()
    for f in model.all_functions():
        if "structure" not in f.module.relpath and "language" not in f.module.relpath:
            continue
        if f.kind == "setter" or f.name in ("__init__", "__post_init__"):
            continue
        if not any(isinstance(n, ast.Attribute) and isinstance(n.ctx, ast.Store) and n.attr in LINK_ATTRS for n in ast.walk(f.node)):
            continue
        if is_private_helper(f) and syntactic_callers(model, f):
            continue        # read in place at its callers
        try:
            ev = Evaluator(model, inline_methods=False)
            ps = PathEnumerator(ev).function_paths(f, self_cls=f.cls)
        except Unsupported as e:
            raise AnalysisError(f"{f.qualname} stores a relation link but is outside the supported fragment: {e}")

        def stores(p):
            for e in p.events:
                if e.kind == "store" and e.term[2] in LINK_ATTRS:
                    yield e
                if e.kind == "loop":
                    for bp in e.extra["paths"]:
                        yield from stores(bp)
        for p in ps:
            for e in stores(p):
                examined += 1
                tgt, val = e.term[1], devar(e.term[3])
                if val[0] == "attr" and val[2] in LINK_ATTRS and val[1] != tgt and val[1][0] in ("sym", "attr", "bound"):
                    # a record that merely CARRIES a link in a field of that name is not an operation: the holder must be (or contain) an operation
                    holder = ev.type_of(val[1]) if hasattr(ev, "type_of") else None
                    if holder is not None and not (holder.is_subclass_of("ICircuitOperation") or holder.is_subclass_of("IRelationComponent") or holder.is_subclass_of("IDeclarativeCircuit")):
                        continue
                    key = (f.qualname, show(e.term)[:160])
                    if key in seen:
                        continue
                    seen.add(key)
                    ok = f.qualname in LINK_SHARING_SITES
                    rep.check(ok, rule, f"{f.qualname}[shares a link object]", f"{f.module.relpath}:{getattr(e.node, 'lineno', f.node.lineno)}", found=show(e.term)[:160],
                              required="only the reviewed hand-over shares a link object: " + ", ".join(LINK_SHARING_SITES),
                              what=f"{f.qualname} gives an operation the very link object another operation holds: wherever the link is what separates two "
                                   "operations (value equality, K4) they now compare and hash equal -- e.g. the first nested block equals its parent in the copy lookup and the "
                                   "acquisitions of later blocks are re-targeted to the wrong circuit", detail="link-sharing")
    rep.floor(f"{rule} stores of a relation link examined", examined, 4)
    if not seen:
        rep.ok(rule, "structure[link stores]", "src/qce_circuit/structure", found=f"{examined} stores of a relation link, none hands over another operation's link object", required="no sharing outside the reviewed site")


# ---------------------------------------------------------------------------------------------
def _k1_k2(model: Model, rep: Report):
    rep.rule("C05.K1", "copy() of class K constructs K itself and passes every init=True dataclass field of K: the same "
                       "value, or self.<f>.copy(<lookup>) for link / acquisition-strategy fields (a dropped field with a "
                       "default silently resets it)")
    rep.rule("C05.K2", "the relation link of the copy is self.<relation>.copy(<the lookup parameter>), passed to the "
                       "constructor or assigned on the new object before return")
    n_cls = 0
    n_own = 0
    for iface, classes in copy_families(model):
        for K in classes:
            n_cls += 1
            f = K.resolve("copy")
            if f is None or "abstractmethod" in f.decorators:
                raise AnalysisError(f"{K.name}: no concrete copy()")
            construct = f"{K.name}.copy"
            if f.cls is K:
                n_own += 1
            if K.name == "CircuitCompositeOperation":
                opaque = ()
            ev = Evaluator(model, inline_methods=False)
            pe = PathEnumerator(ev)
            try:
                paths = pe.function_paths(f, self_cls=K)
            except Unsupported as e:
                raise AnalysisError(f"{construct}: {e}")
            param = lookup_param_of(f)
            self_t = sym(f.self_name)
            rets = [p for p in paths if p.exit == "return"]
            if not rets:
                rep.fail("C05.K1", construct, f.loc, found="no return", required=f"return {K.name}(...)",
                         what="copy() never returns", detail="no-return")
                continue
            fields = K.all_fields() if any(k.is_dataclass for k in K.mro()) else {}
            for p in rets:
                v = p.value
                if v is None or v[0] != "new":
                    rep.fail("C05.K1", construct, f.loc, found=show(v) if v else None, required=f"{K.name}(<every init field>)",
                             what="copy() does not return a freshly constructed object" +
                                  (" (returns the original: copy and original are one object)" if v == self_t else ""),
                             detail="not-constructed")
                    continue
                if v[1] != K.name:
                    rep.fail("C05.K1", construct, f.loc, found=f"{v[1]}(...)", required=f"{K.name}(...)",
                             what=f"copy() of {K.name} builds a {v[1]}: kind (and class-specific fields / channels) are lost",
                             detail="wrong-class")
                    continue
                passed = dict(v[2])
                # ``result.<property> = x`` through a setter that stores its argument in a field is an assignment of that field
                for key_ in [k_ for k_ in passed if k_ not in fields]:
                    for k2_ in [K]:
                        for sf_ in [x_ for x_ in [K.resolve_setter(key_)] if x_ is not None]:
                            body_ = [st_ for st_ in sf_.node.body if not (isinstance(st_, ast.Expr) and isinstance(st_.value, ast.Constant))]
                            ps_ = [a_.arg for a_ in sf_.node.args.args]
                            if sf_.kind == "setter" and len(body_) == 1 and isinstance(body_[0], ast.Assign) and len(body_[0].targets) == 1 and len(ps_) == 2 \
                                    and isinstance(body_[0].targets[0], ast.Attribute) and isinstance(body_[0].targets[0].value, ast.Name) and body_[0].targets[0].value.id == ps_[0] \
                                    and isinstance(body_[0].value, ast.Name) and body_[0].value.id == ps_[1] and body_[0].targets[0].attr in fields and key_ in passed:
                                passed[body_[0].targets[0].attr] = passed.pop(key_)
                for fname, fi in fields.items():
                    kind = field_kind(ev, model, fi)
                    is_rel = kind == "link"
                    rule = "C05.K2" if is_rel else "C05.K1"
                    if fname not in passed:
                        if fi.init:
                            rep.fail(rule, construct, f.loc, found=f"{fname} not passed", required=f"{fname}=self.{fname}" +
                                     (".copy(lookup)" if kind != "value" else ""),
                                     what=f"field '{fname}' is dropped by copy(): the copy silently falls back to the default",
                                     detail=f"dropped:{fname}")
                        elif kind != "value":
                            # assigned by a helper of the package through setattr with a computed name (a field table): not read -- say so instead of answering
                            from ..model import FunctionInfo as _FI
                            for c_ in ast.walk(f.node):
                                if isinstance(c_, ast.Call) and isinstance(c_.func, ast.Name):
                                    t_ = model.lookup_symbol(f.module, c_.func.id)
                                    if isinstance(t_, _FI) and any(isinstance(x_, ast.Call) and isinstance(x_.func, ast.Name) and x_.func.id == "setattr" and len(x_.args) == 3
                                                                   and not isinstance(x_.args[1], ast.Constant) for x_ in ast.walk(t_.node)):
                                        raise AnalysisError(f"{construct}: fields outside the constructor are assigned by {t_.qualname} through setattr with a computed name "
                                                            f"(field table): whether '{fname}' is among them is not read")
                            rep.fail(rule, construct, f.loc, found=f"{fname} (init=False) never assigned on the copy",
                                     required=f"result.{fname} = self.{fname}.copy(lookup) before return",
                                     what=f"the {kind} '{fname}' is not transferred to the copy", detail=f"dropped:{fname}")
                        else:
                            # init=False value field: the class default applies to both original and copy
                            rep.ok("C05.K1", construct + f"[{fname}]", f.loc, found="init=False, class default", required="class default")
                        continue
                    val = passed[fname]
                    if iface == "IRelationLink" and fname == link_reference_field(ev, K):
                        rep.ok("C05.K1", construct + f"[{fname}]", f.loc, found=f"{fname}={show(val)}", required="passed (mapping decided by K3)")
                    elif iface == "IAcquisitionStrategy":
                        # the registry of a strategy is deliberately re-targeted: its value is decided by C05.K6
                        rep.ok("C05.K1", construct + f"[{fname}]", f.loc, found=f"{fname}={show(val)}", required="passed (value decided by K6)")
                    elif kind == "value":
                        rep.check(is_same_value(val, self_t, fname), "C05.K1", construct + f"[{fname}]", f.loc,
                                  found=f"{fname}={show(val)}", required=f"{fname}=self.{fname}",
                                  what=f"field '{fname}' of the copy does not carry the original's value", detail=f"value:{fname}")
                    else:
                        ok, why = is_copy_with_lookup(val, self_t, fname, param)
                        rep.check(ok, rule, construct + f"[{fname}]", f.loc, found=f"{fname}={show(val)}",
                                  required=f"{fname}=self.{fname}.copy({param})",
                                  what=f"{kind} '{fname}' is not transferred through the lookup: {why}" +
                                       (" (the copy shares the original's link object, so its reference is not re-pointed)"
                                        if val == ("attr", self_t, fname) else ""),
                                  detail=f"{kind}:{fname}")
                extra = [k for k in passed if k not in fields]
                if extra and fields:
                    rep.fail("C05.K1", construct, f.loc, found=extra, required=list(fields), what="unknown constructor arguments",
                             detail="extra")
    rep.floor("concrete ICircuitOperation/IRelationLink/IAcquisitionStrategy classes", n_cls, 30)
    rep.analysed["classes with a copy() of their own (the others inherit one, which is analysed for them as well)"] = n_own
    rep.analysed["C05 classes with copy()"] = n_cls


# ---------------------------------------------------------------------------------------------
def _k3(model: Model, rep: Report):
    rep.rule("C05.K3", "CircuitCompositeOperation.copy walks the whole node iterator (parents first) and for every node, "
                       "unconditionally and in this order: copy with the lookup, register lookup[original] = copy, add the "
                       "copy; RelationLink/MultiRelationLink.copy map their references through the lookup")
    K = model.cls("CircuitCompositeOperation")
    f = K.resolve("copy")
    construct = "CircuitCompositeOperation.copy"
    ev = Evaluator(model, inline_methods=False)
    paths = PathEnumerator(ev).function_paths(f, self_cls=K)
    param = lookup_param_of(f)
    self_t = sym(f.self_name)
    rets = [p for p in paths if p.exit == "return"]
    rep.floor("return paths of CircuitCompositeOperation.copy", len(rets), 1)
    for p in rets:
        loops = [e for e in p.events if e.kind == "loop"]
        if len(loops) != 1:
            rep.fail("C05.K3", construct, f.loc, found=f"{len(loops)} loops", required="one loop over the node iterator",
                     what="the composite copy does not rebuild its content in one pass", detail="shape")
            continue
        lp = loops[0]
        dom = node_iterator_domain(lp.term)
        graph_ok = dom == "ALL" and strip_identity_wrappers(lp.term)[1][1] == ("attr", self_t, "_circuit_graph")
        rep.check(graph_ok, "C05.K3", construct + "[domain]", f.loc, found=f"{show(lp.term)} -> {dom}", required="ALL nodes of self._circuit_graph, parents first",
                  what="the copy does not range over all nodes of the original in listing order", detail="domain")
        body: List[Path] = lp.extra["paths"]
        if len(body) != 1 or body[0].exit != "fall" or atoms_of(body[0].cond):
            rep.fail("C05.K3", construct + "[unconditional]", f.loc, found=f"{len(body)} paths through the loop body: " +
                     "; ".join(f"{bp.exit} if {show(bp.cond)}" for bp in body), required="one unconditional path",
                     what="copying / registering / adding a node is conditional", detail="conditional")
            continue
        bp = body[0]
        elem = ("bound", "for", lp.node.lineno, show(lp.term))
        orig = ("attr", elem, "operation")
        # order of the three steps
        seq: List[Tuple[str, Term]] = []
        for e in bp.events:
            if e.kind in ("assign", "effect") and e.term is not None:
                for c in find_calls(e.term, "copy"):
                    if c[1] == ("attr", orig, "copy") and ("copy", c) not in seq:
                        seq.append(("copy", c))
            if e.kind == "store" and isinstance(e.term[2], tuple) and e.term[2][0] == "index":
                seq.append(("register", e.term))
            if e.kind == "effect" and e.term is not None:
                for c in find_calls(e.term, "add"):
                    seq.append(("add", c))
        kinds = [k for k, _ in seq]
        rep.check(kinds == ["copy", "register", "add"], "C05.K3", construct + "[order]", f.loc, found=kinds,
                  required=["copy", "register", "add"], what="the per-node steps are missing, duplicated or out of order",
                  detail="order")
        if kinds == ["copy", "register", "add"]:
            cp, reg, add = seq[0][1], seq[1][1], seq[2][1]
            args, kw = call_args(cp)
            given = list(args) + list(kw.values())
            rep.check(len(given) == 1 and lookup_param_ok(given[0], param, p.cond, ev), "C05.K3", construct + "[copy-with-lookup]", f.loc,
                      found=show(cp), required=f"node.operation.copy({param})", what="children are copied without the lookup",
                      detail="child-lookup")
            ok_reg = lookup_param_ok(reg[1], param, p.cond, ev) and (not given or reg[1] == given[0]) and reg[2] == ("index", orig) and reg[3] == cp
            rep.check(ok_reg, "C05.K3", construct + "[register]", f.loc, found=show(reg), required=f"{param}[node.operation] = <that copy>",
                      what="the lookup entry does not map the original operation to its copy", detail="register")
            res = p.value
            add_args, add_kw = call_args(add)
            added = (list(add_args) + list(add_kw.values()) + [None])[0]
            recv_is_result = add[1][0] == "attr" and res is not None and add[1][1][0] == "new" and add[1][1][1] == K.name
            rep.check(added == cp and recv_is_result, "C05.K3", construct + "[add]", f.loc, found=show(add), required="result.add(<that copy>)",
                      what="the copy of the node is not what is added to the new composite", detail="add")
    # links
    for cname, ref_field in (("RelationLink", None), ("MultiRelationLink", None)):
        L = model.cls(cname)
        lf = L.resolve("copy")
        lparam = lookup_param_of(lf)
        evl = Evaluator(model, inline_methods=False)
        lpaths = PathEnumerator(evl).function_paths(lf, self_cls=L)
        lself = sym(lf.self_name)
        rets = [p for p in lpaths if p.exit == "return"]
        rf = link_reference_field(evl, L)
        for p in rets:
            if p.value is None or p.value[0] != "new" or p.value[1] != cname:
                continue  # reported by K1
            val = dict(p.value[2]).get(rf)
            construct = f"{cname}.copy[{rf}]"
            if val is None:
                continue
            tbl = lambda t: lookup_param_ok(t, lparam, p.cond, evl)
            if cname == "RelationLink":
                old = ("attr", lself, rf)
                ok = lookup_or(evl, p.cond, val, lambda k: k == old, tbl, lambda k: NONE)
                rep.check(ok, "C05.K3", construct, lf.loc, found=show(val), required=f"{lparam}.get(self.{rf}, None)",
                          what="the copied link does not point at the copy of the referenced operation", detail="link-map")
            else:
                # the list handed over: [lookup[old] for old in ALL old references if old in lookup], as a comprehension or as the accumulator loop
                from ..listflow import as_single_comp, fuse_comp
                comp = fuse_comp(as_single_comp(p, val))
                ok = False
                why = "reference list is not rebuilt through the lookup"
                if comp[0] == "comp" and comp[1] == "list" and len(comp[3]) == 1:
                    gen_it, conds = comp[3][0]
                    if gen_it != ("attr", lself, rf):
                        why = f"ranges over {show(gen_it)} instead of all references"
                    else:
                        elt_ = comp[2]
                        sentinel = None
                        if is_call_of(elt_, "get") and len(list(elt_[2]) + list(elt_[3])) == 2 and tbl(elt_[1][1]):
                            # ``m = lookup.get(op, SENTINEL)`` kept iff ``m is not SENTINEL``: the entry of a known key
                            a_ = list(elt_[2]) + [x for _, x in elt_[3]]
                            if a_[1] == ("call", "object", (), ()) or (a_[1][0] == "call" and a_[1][1] in ("object", ("global", "object"))):
                                sentinel = a_[1]
                                from ..sym import t_cmp as _cmp
                                if list(conds) == [t_not(_cmp("is", elt_, sentinel))] or list(conds) == [t_not(_cmp("==", elt_, sentinel))]:
                                    comp = ("comp", "list", ("sub", elt_[1][1], a_[0]), ((gen_it, (("in", a_[0], elt_[1][1]),)),))
                                    conds = comp[3][0][1]
                        b_ = comp[2][2] if comp[2][0] == "sub" else None
                        mapped = comp[2][0] == "sub" and tbl(comp[2][1]) and b_ is not None and b_[0] == "bound"
                        # the only filter allowed: membership of that same element in that same lookup (unknown references are dropped, known ones kept)
                        filt = all(c == ("in", b_, comp[2][1]) for c in conds) if mapped else False
                        ok = mapped and filt
                        if mapped and not filt:
                            why = "an old reference present in the lookup is not mapped to its copy"
                rep.check(ok, "C05.K3", construct, lf.loc, found=show(comp), required=f"[{lparam}[op] for op in self.{rf} (if known)]",
                          what=why, detail="link-map")


# ---------------------------------------------------------------------------------------------
def eq_kind(c: ClassInfo) -> str:
    for k in c.mro():
        if "__eq__" in k.methods and "abstractmethod" not in k.methods["__eq__"][0].decorators:
            return "explicit"
        if k.is_dataclass:
            return "identity" if k.dc_param("eq", True) is False else "generated"
    return "identity"


def hash_kind(c: ClassInfo) -> str:
    """Python's dataclass rules, decided from the decorator parameters and the class bodies."""
    for k in c.mro():
        own = "__hash__" in k.methods
        if k.is_dataclass:
            eq = k.dc_param("eq", True)
            frozen = k.dc_param("frozen", False)
            unsafe = k.dc_param("unsafe_hash", False)
            if unsafe:
                return "fields"
            if own:
                return "explicit:" + k.name
            if not eq:
                continue  # inherits
            if frozen:
                return "fields"
            return "none"  # eq without hash: __hash__ is set to None
        if own:
            return "explicit:" + k.name
    return "identity"


def eq_blind(ev: Evaluator, T: Optional[ClassInfo]) -> bool:
    """All instances of T compare equal: generated equality with no compared field."""
    if T is None or eq_kind(T) != "generated":
        return False
    return not any(f.compare for f in T.all_fields().values())


def holds_container_state(T: ClassInfo) -> bool:
    for f in T.all_fields().values():
        ann = ast.unparse(f.annotation) if f.annotation is not None else ""
        if ann.startswith(("List", "Dict", "Set", "list", "dict", "set")):
            return True
    return False


def _k4(model: Model, rep: Report):
    rep.rule("C05.K4", "every class used as key of relation_transfer_lookup / strategy_transfer_lookup is hashable, and a "
                       "generated (value) equality compares all instance-distinguishing state: no field holding circuit "
                       "structure is compare=False or of a type whose instances all compare equal")
    ev = Evaluator(model)
    ico = model.cls("ICircuitOperation")
    n = 0
    for K in model.subclasses(ico, concrete_only=True):
        n += 1
        hk, ek = hash_kind(K), eq_kind(K)
        rep.check(hk != "none", "C05.K4", f"{K.name}[hashable]", K.loc, found=f"eq={ek} hash={hk}", required="hashable",
                  what="the class defines value equality without a hash: it cannot be a key of the copy lookup (copy raises)",
                  detail="unhashable")
        if ek != "generated":
            rep.ok("C05.K4", f"{K.name}[identity]", K.loc, found=f"eq={ek}", required="distinct members never equal")
            continue
        blind = []
        for fname, fi in K.all_fields().items():
            T = ev.ann_class(fi.annotation, fi.owner.module)
            if T is None:
                continue
            if (not fi.compare or eq_blind(ev, T)) and holds_container_state(T):
                blind.append(f"{fname}: {T.name}" + ("" if fi.compare else " (compare=False)"))
        # two operations of the same kind on the same qubits are told apart only by their relation link (which carries a per-instance identifier)
        from .c03 import unique_identifier
        sep = []
        for fname, fi in K.all_fields().items():
            if not fi.compare:
                continue
            T = ev.ann_class(fi.annotation, fi.owner.module)
            if T is None:
                continue
            impls = [c for c in [T] + model.subclasses(T) if c.is_dataclass and not any("abstractmethod" in g.decorators for gs in c.methods.values() for g in gs if g.cls is c)]
            if impls and all(unique_identifier(model, c)[0] or eq_kind(c) == "identity" for c in impls):
                sep.append(fname)
        rep.check(bool(sep), "C05.K4", f"{K.name}[separated]", K.loc, found=f"compared fields with a per-instance identifier: {sep}" if sep else "no compared field carries a per-instance identifier",
                  required="a compared field whose value is unique per operation (the relation link)",
                  what="two operations of the same kind on the same qubits compare and hash equal: as keys of the copy lookup the second overwrites the first, and relations "
                       "to the first are re-pointed to the copy of the second", detail="value-eq-no-separator")
        rep.check(not blind, "C05.K4", f"{K.name}[key-identity]", K.loc, found=blind or "all structural state compared",
                  required="no uncompared structural field under value equality",
                  what="two distinct sub-circuits with different content compare and hash equal once they share a link "
                       "(extend / decomposed_operations hand one link object to several heads): the copy lookup then maps "
                       "both to one copy", detail="value-eq-blind-structure")
    rep.floor("lookup key classes", n, 27)


# ---------------------------------------------------------------------------------------------
def _k5(model: Model, rep: Report):
    rep.rule("C05.K5", "a copy owns fresh structure: the graph field is created per instance (default_factory, init=False); "
                       "DeclarativeCircuit.add_sub_circuit nests operation.copy(lookup) and not the operation; repeat() takes "
                       "its snapshot before the loop and extends with a fresh snapshot.copy() per iteration")
    K = model.cls("CircuitCompositeOperation")
    ev = Evaluator(model)
    graph_fields = [(n, fi) for n, fi in K.all_fields().items()
                    if (ev.ann_class(fi.annotation, fi.owner.module) or K).is_subclass_of(model.cls("GraphBranch"))]
    if len(graph_fields) != 1:
        raise AnalysisError("CircuitCompositeOperation: graph field not found")
    gname, gfi = graph_fields[0]
    rep.check(gfi.default_factory is not None and gfi.default is None and not gfi.init, "C05.K5", f"CircuitCompositeOperation.{gname}",
              f"{gfi.owner.module.relpath}:{gfi.lineno}", found=f"init={gfi.init} default_factory={ast.unparse(gfi.default_factory) if gfi.default_factory else None} "
              f"default={ast.unparse(gfi.default) if gfi.default else None}", required="init=False, default_factory=<graph class>",
              what="the graph of a new composite is not created per instance: copies would share structure", detail="graph-field")
    # add_sub_circuit
    D = model.cls("DeclarativeCircuit")
    f = D.resolve("add_sub_circuit")
    paths, ev2 = function_paths(model, f, D, Evaluator(model, inline_methods=False))
    op = sym([p for p in f.param_names if p != f.self_name][0])
    for p in paths:
        if p.exit != "return":
            continue
        adds = [c for e, c in effect_calls(p.events, "add") if c[1][1] == ("attr", sym(f.self_name), "_structure")]
        if len(adds) != 1:
            rep.fail("C05.K5", "DeclarativeCircuit.add_sub_circuit", f.loc, found=f"{len(adds)} adds", required="exactly one add",
                     what="sub-circuit not added exactly once", detail="add-count")
            continue
        a, kw = call_args(adds[0])
        v = (list(a) + list(kw.values()))[0]
        is_copy = is_call_of(v, "copy") and v[1][1] == op
        rep.check(is_copy, "C05.K5", "DeclarativeCircuit.add_sub_circuit[nests-copy]", f.loc, found=show(v), required=f"{show(op)}.copy(lookup)",
                  what="the sub-circuit object itself is nested: later changes to the original show up in the parent",
                  detail="nests-original")
        if is_copy:
            ca, ckw = call_args(v)
            lk = (list(ca) + list(ckw.values()) + [None])[0]
            ok = lk is not None and lk[0] in ("var", "dict")
            d = lk[3] if lk is not None and lk[0] == "var" else lk
            maps = d is not None and d[0] == "dict" and (op, ("attr", sym(f.self_name), "_structure")) in d[1]
            rep.check(ok and maps, "C05.K5", "DeclarativeCircuit.add_sub_circuit[registry-retarget]", f.loc, found=show(lk) if lk else None,
                      required="{operation: self._structure}", what="the nested copy's acquisition registries are not re-targeted to the parent structure",
                      detail="retarget-lookup")
    # repeat
    check_repeat(model, rep, "C05.K5")


def check_repeat(model: Model, rep: Report, rule: str):
    K = model.cls("CircuitCompositeOperation")
    f = K.resolve("repeat")
    if f is None:
        raise AnalysisError("CircuitCompositeOperation.repeat not found")
    ev = Evaluator(model, inline_methods=False)
    pe_ = PathEnumerator(ev)
    paths = pe_.function_paths(f, self_cls=K)
    self_t = sym(f.self_name)
    times = sym([p for p in f.param_names if p != f.self_name][0])
    construct = "CircuitCompositeOperation.repeat"
    for p in [q for q in paths if q.exit == "return"]:
        loops = [e for e in p.events if e.kind == "loop"]
        if len(loops) != 1:
            rep.fail(rule, construct, f.loc, found=f"{len(loops)} loops", required="one loop", what="repeat is not a single loop", detail="shape")
            continue
        lp = loops[0]
        # snapshot: a local bound before the loop to self.copy()
        snap_names = [e.extra for e in p.events if e.kind == "assign" and e.node.lineno < lp.node.lineno
                      and e.term == ("call", ("attr", self_t, "copy"), (), ())]
        body = lp.extra["paths"]
        ok_body = len(body) == 1 and not atoms_of(body[0].cond) and body[0].exit == "fall"
        if not ok_body:
            rep.fail(rule, construct + "[body]", f.loc, found=f"{len(body)} body paths", required="one unconditional extend per iteration",
                     what="extension of the block is conditional", detail="conditional")
            continue
        exts = [c for e, c in effect_calls(body[0].events, "extend") if c[1][1] == self_t]
        if len(exts) != 1:
            rep.fail(rule, construct + "[body]", f.loc, found=f"{len(exts)} extend calls", required="exactly one self.extend(...) per iteration",
                     what="each iteration must append exactly one copy", detail="extend-count")
            continue
        a, kw = call_args(exts[0])
        arg = (list(a) + list(kw.values()))[0]
        init_env = lp.extra["init_env"]
        snapshot_terms = [init_env[n] for n in snap_names if n in init_env]
        # freshness is an identity question (an object created before the loop is ONE object however it is
        # named), so it is decided on the syntax: the argument must be a .copy() call evaluated inside the loop
        # body on a name bound, before the loop, to self.copy()
        norm_body = ast.Module(body=list(pe_.norm.body(f, f.node)), type_ignores=[])
        ext_node = exts_nodes(lp.node, f.self_name, scope=norm_body)
        fresh_of_snapshot = bool(ext_node) and all(
            _fresh_copy_expr(_call_first_arg(n), lp.node, set(snap_names)) for n in ext_node)
        if not fresh_of_snapshot and lp.extra.get("mapped_elt") is not None and arg == lp.extra["mapped_elt"] and is_call_of(arg, "copy") \
                and arg[1][1] in snapshot_terms and not (list(arg[2]) + list(arg[3])):
            # ``for rep in map(lambda _: snapshot.copy(), range(n))``: the element expression is evaluated once per iteration
            fresh_of_snapshot = True
        what = "each iteration must extend with a fresh copy of the snapshot taken before the loop"
        if arg == ("call", ("attr", self_t, "copy"), (), ()) and not (is_call_of(arg, "copy") and arg[1][1] != self_t):
            what = "copies the growing block itself inside the loop: the content grows geometrically"
        elif arg in snapshot_terms:
            what = "extends with the same snapshot object every iteration: the iterations share operations"
        rep.check(fresh_of_snapshot, rule, construct + "[fresh-copy]", f.loc, found=show(arg), required="<snapshot taken before the loop>.copy()",
                  what=what, detail="snapshot")
        return lp, times, f
    return None


# ---------------------------------------------------------------------------------------------
def check_registry_copy(model: Model, rep: Report, rule: str):
    K = model.cls("RegistryAcquisitionStrategy")
    f = K.resolve("copy")
    param = lookup_param_of(f)
    ev = Evaluator(model, inline_methods=False)
    paths = PathEnumerator(ev).function_paths(f, self_cls=K)
    self_t = sym(f.self_name)
    construct = "RegistryAcquisitionStrategy.copy"
    reg_fields = [n for n, fi in K.all_fields().items() if fi.init]
    if len(reg_fields) != 1:
        raise AnalysisError("RegistryAcquisitionStrategy: registry field not found")
    rfield = reg_fields[0]
    R = model.cls("AcquisitionRegistry")
    n = 0
    for p in [q for q in paths if q.exit == "return"]:
        v = p.value
        if v is None or v[0] != "new" or v[1] != K.name:
            rep.fail(rule, construct, f.loc, found=show(v) if v else None, required="RegistryAcquisitionStrategy(registry=AcquisitionRegistry(...))",
                     what="the strategy copy is not a new strategy", detail="not-constructed")
            continue
        reg = dict(v[2]).get(rfield)
        if reg is None or reg[0] != "new" or reg[1] != R.name:
            rep.fail(rule, construct, f.loc, found=show(reg) if reg else None, required="a new AcquisitionRegistry on the transferred circuit",
                     what="the copy keeps (shares) the original's registry instead of building one on the transferred circuit",
                     detail="shared-registry")
            continue
        circ = dict(reg[2]).get("circuit")
        # old reference circuit: self.<registry>.<attribute set from the constructor parameter>
        old_candidates = [("attr", ("attr", self_t, rfield), a) for a in ("reference_circuit",)]
        ok = lookup_or_same(ev, p.cond, circ, lambda k: k in old_candidates, lambda t: lookup_param_ok(t, param, p.cond, ev))
        rep.check(ok, rule, construct, f.loc, found=show(circ) if circ else None, required=f"{param}.get(old_circuit, old_circuit)",
                  what="the copied measurement's registry is not re-targeted through the lookup with the old circuit as fallback "
                       "(wrong circuit => acquisition index -1 or indices of another circuit)", detail="retarget")
        n += 1
    rep.floor("return paths of RegistryAcquisitionStrategy.copy", n, 1)


def _k6(model: Model, rep: Report):
    rep.rule("C05.K6", "RegistryAcquisitionStrategy.copy builds a new registry on lookup.get(old_circuit, old_circuit)")
    check_registry_copy(model, rep, "C05.K6")


def exts_nodes(loop: ast.AST, self_name: str, scope: Optional[ast.AST] = None) -> List[ast.Call]:
    # names that denote self: self, and a local bound to self (an accumulator that is only ever re-bound to what self.extend hands back)
    names = {self_name}
    for n in ast.walk(scope if scope is not None else loop):
        if isinstance(n, ast.Assign) and isinstance(n.value, ast.Name) and n.value.id == self_name:
            names |= {t.id for t in n.targets if isinstance(t, ast.Name)}
    out = []
    for n in ast.walk(loop):
        if isinstance(n, ast.Call) and isinstance(n.func, ast.Attribute) and n.func.attr == "extend" \
                and isinstance(n.func.value, ast.Name) and n.func.value.id in names:
            out.append(n)
    return out


def _call_first_arg(c: ast.Call) -> Optional[ast.expr]:
    if c.args:
        return c.args[0]
    if c.keywords:
        return c.keywords[0].value
    return None


def _fresh_copy_expr(e: Optional[ast.expr], loop: ast.AST, snapshots: set, depth: int = 0) -> bool:
    if e is None or depth > 6:
        return False
    if isinstance(e, ast.IfExp):
        return _fresh_copy_expr(e.body, loop, snapshots, depth + 1) and _fresh_copy_expr(e.orelse, loop, snapshots, depth + 1)
    if isinstance(e, ast.Name):
        # a name is fresh only when every binding of it inside the loop body is fresh, and it is bound there
        binds = [n for n in ast.walk(loop) if isinstance(n, (ast.Assign, ast.AnnAssign))
                 and any(isinstance(t, ast.Name) and t.id == e.id
                         for t in (n.targets if isinstance(n, ast.Assign) else [n.target]))]
        return bool(binds) and all(n.value is not None and _fresh_copy_expr(n.value, loop, snapshots, depth + 1) for n in binds)
    if isinstance(e, ast.Call) and isinstance(e.func, ast.Attribute) and e.func.attr == "copy" and not e.args and not e.keywords:
        v = e.func.value
        if isinstance(v, ast.Name) and v.id not in snapshots:
            # an alias taken inside the loop: ``s = snapshot`` ... ``s.copy()``
            binds = [n for n in ast.walk(loop) if isinstance(n, (ast.Assign, ast.AnnAssign))
                     and any(isinstance(t, ast.Name) and t.id == v.id for t in (n.targets if isinstance(n, ast.Assign) else [n.target]))]
            if binds and all(isinstance(n.value, ast.Name) and n.value.id in snapshots for n in binds):
                return True
        if isinstance(v, ast.Name) and v.id in snapshots:
            rebound = [n for n in ast.walk(loop) if isinstance(n, (ast.Assign, ast.AnnAssign, ast.AugAssign))
                       and any(isinstance(t, ast.Name) and t.id == v.id
                               for t in (n.targets if isinstance(n, ast.Assign) else [n.target]))]
            return not rebound
    return False
