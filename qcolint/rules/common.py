"""Helpers shared by several property rule sets."""
from __future__ import annotations

import ast
from typing import Dict, List, Optional, Tuple

from ..model import AnalysisError, ClassInfo, FunctionInfo, Model
from ..paths import Event, Path, PathEnumerator, find_calls
from ..sym import NONE, Evaluator, Term, show, subterms, sym

# ---------------------------------------------------------------------------------------------
# iteration domains (C04.D1 and friends): which part of a collection does an iterable range over?
# ---------------------------------------------------------------------------------------------
ALL_NODE_ITERATORS = ("get_node_iterator",)
SUBSET_ITERATORS = ("get_nodes_at", "leaf_nodes", "get_leaf_at_any")
IDENTITY_WRAPPERS = ("list", "tuple", "tqdm", "iter")


def strip_identity_wrappers(t: Term) -> Term:
    """list(x), tuple(x), tqdm(x, desc=..) range over the same elements in the same order as x."""
    while True:
        if t[0] == "call" and (t[1] in IDENTITY_WRAPPERS or (isinstance(t[1], tuple) and t[1][0] == "global" and t[1][1] in IDENTITY_WRAPPERS)) and t[2]:
            t = t[2][0]
        elif t[0] == "var" and len(t) == 4 and t[3][0] == "call" and (t[3][1] in IDENTITY_WRAPPERS) and t[3][2]:
            # a local snapshot ``nodes = list(x)`` ranges over what x ranged over when it was taken
            t = t[3]
        else:
            return t


def is_call_of(t: Term, attr_name: str) -> bool:
    return (t[0] == "call" and isinstance(t[1], tuple) and t[1][0] == "attr" and t[1][2] == attr_name)


def call_receiver(t: Term) -> Optional[Term]:
    if t[0] == "call" and isinstance(t[1], tuple) and t[1][0] == "attr":
        return t[1][1]
    return None


def call_args(t: Term) -> Tuple[Tuple[Term, ...], Dict[str, Term]]:
    assert t[0] == "call"
    return tuple(t[2]), dict(t[3])


def call_arg(t: Term, index: int, name: str) -> Optional[Term]:
    """Argument of a call term by position or keyword (calls bound to a resolved callee keep only keywords)."""
    args, kw = call_args(t)
    if name in kw:
        return kw[name]
    if index < len(args):
        return args[index]
    return None


def node_iterator_domain(t: Term) -> str:
    """'ALL' when the iterable is the complete node iterator of a graph (possibly wrapped in list()/tqdm()),
    'REVERSED-ALL' for reversed(...) of it, 'SUBSET' for depth / leaf selections or slices, '?' otherwise."""
    if t is None:
        # a `while` loop has no iterable: a walk driven by hand (explicit stack, next() on an iterator) is outside what the loop rules read
        raise AnalysisError("the node walk is a `while` loop driven by hand (explicit stack / next()); its domain is not read")
    t0 = strip_identity_wrappers(t)
    if t0[0] == "slice" or t0[0] == "sub":
        return "SUBSET"
    if t0[0] == "call" and t0[1] == "reversed" and t0[2]:
        inner = node_iterator_domain(t0[2][0])
        return "REVERSED-ALL" if inner == "ALL" else inner
    if t0[0] == "call" and isinstance(t0[1], tuple) and t0[1][0] == "attr":
        if t0[1][2] in ALL_NODE_ITERATORS:
            return "ALL"
        if t0[1][2] in SUBSET_ITERATORS:
            return "SUBSET"
    if t0[0] == "attr" and t0[2] in SUBSET_ITERATORS:
        return "SUBSET"
    if t0[0] == "comp":
        # a comprehension with a filter narrows; without a filter it keeps the domain of its generator
        gens = t0[3]
        if len(gens) == 1 and not gens[0][1]:
            return node_iterator_domain(gens[0][0])
        return "SUBSET"
    return "?"


def loop_of(path: Path, index: int = 0) -> Optional[Event]:
    loops = [e for e in path.events if e.kind == "loop"]
    return loops[index] if index < len(loops) else None


def function_paths(model: Model, fn: FunctionInfo, self_cls: Optional[ClassInfo] = None, ev: Optional[Evaluator] = None,
                   opaque=()) -> Tuple[List[Path], Evaluator]:
    ev = ev or Evaluator(model, opaque=opaque)
    pe = PathEnumerator(ev)
    return pe.function_paths(fn, self_cls=self_cls), ev


def effect_calls(events: List[Event], name: str) -> List[Tuple[Event, Term]]:
    out = []
    for e in events:
        if e.kind in ("effect", "store", "assign") and e.term is not None:
            for c in find_calls(e.term, name):
                if (e, c) not in out:
                    out.append((e, c))
    # an 'assign' event and the 'effect' event of the same statement carry the same call: de-duplicate by node
    seen = set()
    uniq = []
    for e, c in out:
        key = (id(e.node), c)
        if key in seen:
            continue
        seen.add(key)
        uniq.append((e, c))
    return uniq


def stores(events: List[Event], attr: Optional[str] = None) -> List[Event]:
    return [e for e in events if e.kind == "store" and (attr is None or e.term[2] == attr)]


def lookup_param_ok(t: Optional[Term], param: str, cond: Optional[Term] = None, ev=None) -> bool:
    """The lookup handed on is the function's own lookup parameter, or the empty dict that replaced a None.
    With a path condition the empty replacement may carry any local name, but only where the parameter is known to be None."""
    if t is None:
        return False
    if t == sym(param):
        return True
    if t[0] == "var" and t[3] in (("dict", ()), ("call", "dict", (), ())):
        if t[1] == param:
            return True
        if cond is not None and ev is not None:
            from ..sym import NONE, Unsupported, satisfiable, t_and, t_cmp, t_not
            try:
                return not satisfiable(t_and(cond, t_not(t_cmp("is", sym(param), NONE))), ev.enum_members)
            except Unsupported:
                return False
        return False
    if t[0] == "ite":  # merged form: {} if param is None else param
        from ..sym import NONE as _NONE, t_cmp as _t_cmp, t_not as _t_not
        empty = (("dict", ()), ("call", "dict", (), ()))

        def _empty(x):
            return x in empty or (x[0] == "var" and x[3] in empty)
        is_none = _t_cmp("is", sym(param), _NONE)
        if t[1] == is_none and _empty(t[2]) and t[3] == sym(param):
            return True
        if t[1] == _t_not(is_none) and t[2] == sym(param) and _empty(t[3]):
            return True
        return lookup_param_ok(t[2], param) and lookup_param_ok(t[3], param)
    return False


def norm_stmt(node: ast.AST) -> str:
    """Normalised statement text used in construct keys (never line numbers)."""
    try:
        return " ".join(ast.unparse(node).split())[:160]
    except Exception:  # pragma: no cover
        return type(node).__name__


def share_rule(rep, model, rule_fn, new_rule: str, text: str, only_rules=None, keep=None):
    """Run a rule of another property and record its obligations under ``new_rule`` of this one
    (several properties rest on the same structural fact; each check must catch a break of it on its own)."""
    from ..report import Report
    sub = Report(rep.prop_id, rep.tier, rep.src_root, quiet=True, write=False)
    try:
        rule_fn(model, sub)
    finally:
        # what the rule decided before it gave up (if it did) is kept: a violation found by then is definite
        rep.rule(new_rule, text)
        for o in sub.obligations:
            if only_rules is not None and o["rule"] not in only_rules:
                continue
            if keep is not None and not keep(o):
                continue
            o = dict(o)
            o["note"] = (o.get("note", "") + f" [shared rule {o['rule']}]").strip()
            o["rule"] = new_rule
            rep.obligations.append(o)
        for fl in sub.floors:
            rep.floors.append(fl)


def devar(t):
    """Replace named local containers by their initialising expression (value view of a term)."""
    if not isinstance(t, tuple) or not t:
        return t
    if t[0] == "var" and len(t) == 4:
        return devar(t[3])
    return tuple(devar(x) if isinstance(x, tuple) else x for x in t)


def lookup_or_same(ev, cond, value, key_ok, table_ok) -> bool:
    """``value`` (under path condition ``cond``) is ``table.get(key, key)`` in one of its spellings."""
    return lookup_or(ev, cond, value, key_ok, table_ok, lambda k: k)


def lookup_or(ev, cond, value, key_ok, table_ok, default_of) -> bool:
    """``value`` (under path condition ``cond``) is ``table.get(key, default_of(key))`` in one of its spellings: the ``get`` call, the
    conditional expression ``table[key] if key in table else default``, or -- on a path that already decided membership -- ``table[key]``
    resp. the default."""
    from ..sym import satisfiable, t_and, t_not, Unsupported

    def implies(a, b):
        try:
            return not satisfiable(t_and(a, t_not(b)), ev.enum_members)
        except Unsupported:
            return False
    if value is None:
        return False
    while value[0] == "var" and value[3][0] not in ("list", "dict", "comp", "dictcomp", "set"):
        value = value[3]
    if is_call_of(value, "get") and table_ok(value[1][1]):
        a, kw = call_args(value)
        dflt = a[1] if len(a) > 1 else kw.get("default", NONE)
        return len(a) >= 1 and key_ok(a[0]) and dflt == default_of(a[0])
    if value[0] == "ite":
        c, x, y = value[1], value[2], value[3]
        if c[0] == "not":
            c, x, y = c[1], y, x
        return c[0] == "in" and key_ok(c[1]) and table_ok(c[2]) and x == ("sub", c[2], c[1]) and y == default_of(c[1])
    if value[0] == "sub" and table_ok(value[1]) and key_ok(value[2]):
        return implies(cond, ("in", value[2], value[1]))
    ins = [a for a in _atoms(cond) if a[0] == "in" and key_ok(a[1]) and table_ok(a[2])]
    return any(value == default_of(a[1]) and implies(cond, t_not(a)) for a in ins)


def _atoms(t, acc=None):
    acc = [] if acc is None else acc
    if isinstance(t, tuple) and t:
        if t[0] in ("and", "or"):
            for x in t[1]:
                _atoms(x, acc)
        elif t[0] == "not":
            _atoms(t[1], acc)
        else:
            acc.append(t)
    return acc


def returns_receiver(model: Model, ev, t: Term, recv: Term, depth: int = 0, cls: Optional[ClassInfo] = None) -> bool:
    """``t`` is ``recv`` itself, or a call of a method on ``recv`` that returns its receiver on every path (fluent ``return self``)."""
    if t == recv:
        return True
    if depth > 3 or not (t[0] == "call" and isinstance(t[1], tuple) and t[1][0] == "attr" and t[1][1] == recv):
        return False
    c = cls or ev.type_of(recv)
    if c is None:
        return False
    fs = c.resolve_all(t[1][2])
    if len(fs) != 1 or fs[0].kind != "method":
        return False
    f = fs[0]
    try:
        ps = PathEnumerator(Evaluator(model, inline_methods=False)).function_paths(f, self_cls=c)
    except Exception:
        return False
    rets = [p for p in ps if p.exit != "raise"]
    s = sym(f.self_name)
    return bool(rets) and all(p.exit == "return" and p.value is not None and returns_receiver(model, ev, p.value, s, depth + 1, c) for p in rets)


def syntactic_callers(model: Model, f: FunctionInfo) -> List[FunctionInfo]:
    """Functions whose body calls something named like ``f`` (``x.<name>(...)`` or ``<name>(...)``)."""
    out = []
    for g in model.all_functions():
        if g is f:
            continue
        for n in ast.walk(g.node):
            if isinstance(n, ast.Call) and ((isinstance(n.func, ast.Attribute) and n.func.attr == f.name) or (isinstance(n.func, ast.Name) and n.func.id == f.name)):
                out.append(g)
                break
    return out


def lifted_to_callers(model: Model, f: FunctionInfo, within=None) -> bool:
    """A private helper (``_name``) whose every caller is analysed with the helper's body run in place: its obligations are decided at the
    callers, not on the helper alone."""
    from ..sym import is_private_helper
    if not is_private_helper(f):
        return False
    callers = syntactic_callers(model, f)
    if not callers:
        return False
    if within is not None and not all(c.cls in within for c in callers):
        return False
    return True


def star_segments(t: Term) -> List[Term]:
    """``[a, b, *xs, c]`` as the groups it is made of, in order: [a, b], xs, [c]"""
    if t[0] not in ("list", "tuple") or not any(x[0] == "star" for x in t[1]):
        return [t]
    out: List[Term] = []
    run: List[Term] = []
    for x in t[1]:
        if x[0] == "star":
            if run:
                out.append(("list", tuple(run)))
                run = []
            out.append(x[1])
        else:
            run.append(x)
    if run:
        out.append(("list", tuple(run)))
    return out


def front_delegation(model: Model, rep, rule: str, cls_name: str, member: str, target_attr: str, is_call: bool, what: str):
    """``<cls>.<member>`` (what the user reads) is the structure's ``<target_attr>`` evaluated on every call: one kind of return, no stored or defaulted value
    in between (a hand-rolled memo would have to be invalidated by every writer of the structure, of the duration registries and of the global override)."""
    from ..paths import PathEnumerator
    K = model.cls(cls_name)
    f = K.properties.get(member) or K.resolve(member)
    if f is None:
        raise AnalysisError(f"{cls_name}.{member} not found")
    opaque = {x.qualname for x in model.all_functions() if x.name == target_attr}
    ev = Evaluator(model, inline_methods=False, opaque=opaque)
    paths = [p for p in PathEnumerator(ev).function_paths(f, self_cls=K) if p.exit in ("return", "raise", "fall")]
    s = sym(f.self_name)
    structure = [("attr", s, "_structure"), ("attr", s, "circuit_structure")]
    cs = K.properties.get("circuit_structure")
    if cs is not None:
        structure.append(Evaluator(model, inline_methods=False).value_of(cs, self_cls=K))
    want = []
    for x in structure:
        a = ("attr", x, target_attr)
        want.append(("call", a, (), ()) if is_call else a)
    bad = []
    for p in paths:
        v = strip_identity_wrappers(p.value) if p.value is not None else None
        while v is not None and v[0] == "var" and len(v) == 4:
            v = v[3]
        if v is not None and v[0] == "call" and v[1] in ("list", "tuple") and len(v[2]) == 1 and not v[3]:
            v = v[2][0]
        if p.exit != "return" or v not in want:
            bad.append(f"{p.exit} {show(p.value) if p.value is not None else ''} if {show(p.cond)}"[:160])
        st = [e for e in p.events if e.kind == "store"]
        if st:
            bad.append("stores " + ", ".join(show(e.term)[:60] for e in st if e.term is not None))
    rep.check(not bad and len(paths) >= 1, rule, f"{cls_name}.{member}", f.loc, found="; ".join(bad) or show(paths[0].value), required=f"return self._structure.{target_attr}{'()' if is_call else ''} (always)",
              what=what + ": " + "; ".join(bad), detail="front")


def instance_state_rule(model, rep, rule: str, text: str, keep, floor: int = 1):
    """Per-instance state lives in the instance: an attribute that methods change in place through ``self`` is bound by a constructor (or is a dataclass
    field), never only a class-level container shared by all instances."""
    from ..alias import shared_class_containers
    rep.rule(rule, text)
    classes = [c for c in model.all_classes() if keep(c)]
    rep.floor(f"{rule} classes examined", len(classes), floor)
    found, examined = shared_class_containers(model, classes)
    rep.analysed[f"{rule} in-place changes through self examined"] = examined
    for c in classes:
        mine = [s for s in found if s.cls is c]
        if not mine:
            rep.ok(rule, f"{c.name}[instance state]", c.loc, found="every container changed through self is bound per instance", required="per-instance containers")
        for s in mine:
            rep.fail(rule, f"{c.name}.{s.attr}[shared]", s.loc, found=s.why, required=f"self.{s.attr} bound in __init__ / a dataclass field with default_factory",
                     what=f"all {c.name} objects read and write one container: a value set on one of them is seen (or overwritten) through every other, and a fresh "
                          f"one does not start empty ({s.site.qualname} changes it in place)", detail=f"shared:{s.attr}")


def depth_bound_assumption(model, rep):
    """The layer traversal stops (with a warning) after a fixed number of layers.  Whether that number suffices is a statement about run-time depths and is
    not decided; the value in force is read from the source and recorded as an assumption of the properties that rest on complete traversal."""
    import ast as _ast
    found = []
    for m in model.modules.values():
        for name, v in m.assigns.items():
            if "DEPTH" in name.upper() and isinstance(v, _ast.Constant) and isinstance(v.value, int):
                uses = sum(1 for n in _ast.walk(m.tree) if isinstance(n, _ast.keyword) and n.arg == "max_iterations" and isinstance(n.value, _ast.Name) and n.value.id == name)
                found.append((m.relpath, name, v.value, uses))
    if not found:
        rep.assume("no named traversal bound found in the graph modules (layer traversal unbounded or bounded by a literal)")
    for rel, name, val, uses in found:
        rep.assume(f"no circuit graph is deeper than {name} = {val} layers ({rel}; bounds {uses} traversal loop(s), which stop there with a warning and drop the rest)")


def single_definition_rule(model, rep, rule: str, names, user_cls: str):
    """The classes a matching relation is stated over exist once: the name the package exports at its root is the class the library's own code compares against
    (a second definition of the same name, re-exported in its place, gives users members that are equal to nothing inside the library)."""
    from ..model import AnalysisError as _AE, ClassInfo as _CI
    rep.rule(rule, f"each of {list(names)} is defined once; where the package root re-exports the name it binds the class that {user_cls}'s module uses (resolved through the imports)")
    users = model.classes_by_name.get(user_cls, [])
    if len(users) != 1:
        raise _AE(f"anchor class '{user_cls}' not found or ambiguous (matches: {len(users)})")
    umod = users[0].module
    roots = [m for n, m in model.modules.items() if "." not in n]
    for name in names:
        hits = model.classes_by_name.get(name, [])
        if not hits:
            raise _AE(f"anchor class '{name}' not found")
        internal = model.lookup_symbol(umod, name) if name != user_cls else users[0]
        exported = [model.lookup_symbol(r, name) for r in roots]
        exported = [e for e in exported if isinstance(e, _CI)]
        ok = len(hits) == 1 or (isinstance(internal, _CI) and all(e is internal for e in exported))
        rep.check(ok, rule, f"{name}[one definition]", hits[0].loc,
                  found=f"{len(hits)} definition(s): " + ", ".join(h.module.relpath for h in hits) + (f"; root exports {exported[0].module.relpath}" if exported else "") +
                        (f"; {user_cls} uses {internal.module.relpath}" if isinstance(internal, _CI) else ""),
                  required="one class behind the public name and the internal uses",
                  what=f"`{name}` exists {len(hits)} times and the package root exports another one than {user_cls} compares against: a member obtained from the public name "
                       f"(e.g. {name}.ALL) is not the member the library tests for, so identifiers built with it match nothing they should", detail=f"duplicate:{name}")


def handover_complete_rule(model, rep, rule: str):
    """A circuit is nested when it is COMPLETE: add() stores a copy of the sub-circuit, so what is added to the sub-circuit after it was handed over never
    reaches the parent (typestate: built -> handed over; no `add` after hand-over)."""
    import ast as _ast
    rep.rule(rule, "in the library's circuit builders no local sub-circuit receives further operations after it was handed to a parent with add(): add() nests a COPY, so "
                   "later additions (detectors, barriers, coordinate shifts) stay behind in the local object")
    n_fn, n_sub = 0, 0
    for f in model.all_functions():
        if "/library/" not in "/" + f.module.relpath:
            continue
        binds = {}      # local name -> lines where it is (re)bound to a fresh circuit
        for st in _ast.walk(f.node):
            if isinstance(st, (_ast.Assign, _ast.AnnAssign)) and st.value is not None and isinstance(st.value, _ast.Call) \
                    and (_ast.unparse(st.value.func).split(".")[-1] in ("DeclarativeCircuit",) or _ast.unparse(st.value.func).startswith(("get_circuit_", "construct_"))):
                for t in (st.targets if isinstance(st, _ast.Assign) else [st.target]):
                    if isinstance(t, _ast.Name):
                        binds.setdefault(t.id, []).append(st.lineno)
        if not binds:
            continue
        n_fn += 1
        adds = [c for c in _ast.walk(f.node) if isinstance(c, _ast.Call) and isinstance(c.func, _ast.Attribute) and c.func.attr in ("add", "add_sub_circuit", "add_declarative_circuit")
                and isinstance(c.func.value, _ast.Name)]
        for x, blines in binds.items():
            handed = [c for c in adds if c.func.value.id != x and any(isinstance(a, _ast.Name) and a.id == x for a in list(c.args) + [k.value for k in c.keywords])]
            grown = [c for c in adds if c.func.value.id == x]
            if not handed:
                continue
            n_sub += 1
            bad = []
            for h in handed:
                for g in grown:
                    if g.lineno > h.lineno and not any(h.lineno < b <= g.lineno for b in blines):
                        bad.append((h, g))
            rep.check(not bad, rule, f"{f.qualname}[{x}]", f"{f.module.relpath}:{(bad[0][1] if bad else handed[0]).lineno}",
                      found=(f"`{_ast.unparse(bad[0][1])[:70]}` (line {bad[0][1].lineno}) after `{_ast.unparse(bad[0][0])[:50]}` (line {bad[0][0].lineno})" if bad else
                             f"handed over at line(s) {[h.lineno for h in handed]} after its last addition"), required="every addition before the hand-over",
                      what=f"`{x}` is handed to its parent before it is complete: add() nests a copy, so `{_ast.unparse(bad[0][1])[:60] if bad else ''}` never reaches the circuit "
                           "(detectors / barriers / shifts of that block are missing)", detail=f"late-add:{x}")
    rep.floor("library builders with local sub-circuits", n_fn, 3)
    rep.analysed[f"{rule} local sub-circuits handed over"] = n_sub


def idle_wait_channel_rule(model, rep, rule: str):
    """The idle Waits of the refocusing rounds hold ALL channels of their data qubit: what is added next on that qubit without a relation (the final read-out of the
    simplified constructor, the first operation after flattening) finds them as predecessor whatever its own channel."""
    import ast as _ast
    from ..model import AnalysisError as _AE
    rep.rule(rule, "a Wait without an explicit channel occupies QubitChannel.ALL (field default), and the Waits created by the dynamical-decoupling round builders of the repetition "
                   "code pass no narrower channel: the implicit predecessor of what follows on that qubit is the round, on every channel")
    W = model.cls("Wait")
    fi = W.all_fields().get("qubit_channel")
    if fi is None:
        raise _AE("Wait.qubit_channel vanished")
    from ..sym import Evaluator as _Ev, Frame as _Fr, show as _show
    ev = _Ev(model)
    dv = ev.expr(fi.default, _Fr(None, fi.owner.module, {}, fi.owner, 0)) if fi.default is not None else None
    rep.check(dv == ("enum", "QubitChannel", "ALL"), rule, "Wait.qubit_channel[default]", W.loc, found=_show(dv) if dv is not None else "no default", required="QubitChannel.ALL",
              what=f"a plain Wait(q) occupies {_show(dv) if dv is not None else '?'} only: an operation on another channel of q added next does not wait for it", detail="wait-default")
    n = 0
    for f in model.all_functions():
        if "dynamical_decoupling" not in f.name or "repetition_code" not in f.module.relpath:
            continue
        for c in _ast.walk(f.node):
            if isinstance(c, _ast.Call) and isinstance(c.func, _ast.Name) and c.func.id == "Wait":
                n += 1
                kw = {k.arg: k.value for k in c.keywords if k.arg}
                ch = kw.get("qubit_channel")
                ok = ch is None or _ast.unparse(ch) in ("QubitChannel.ALL",)
                rep.check(ok, rule, f"{f.qualname}[Wait channel]", f"{f.module.relpath}:{c.lineno}", found=_ast.unparse(c)[:100], required="no qubit_channel argument (ALL)",
                          what=f"an idle Wait of the refocusing round occupies only {_ast.unparse(ch) if ch is not None else ''}: the data qubit's other channels look free, so the next "
                               "operation on them is scheduled without regard to the round", detail="wait-channel")
    rep.floor("Wait constructions in the dynamical-decoupling round builders", n, 2)


def order_kept_rule(model, rep, rule: str, cls_name: str, field_name: str, text: str, what: str):
    """A sequence whose ORDER carries meaning (rows of a drawing, the chain of index kernels) is stored as it was built: no method of the class re-orders or
    de-duplicates the stored field (``self.F = sorted(.. self.F ..)`` / ``set`` / ``reversed`` / ``self.F.sort()`` / ``.reverse()``)."""
    import ast as _ast
    from ..model import AnalysisError as _AE
    rep.rule(rule, text)
    K = model.cls(cls_name)
    flds = K.all_fields()
    in_init = any(isinstance(n, _ast.Attribute) and n.attr == field_name for k in K.mro() for fs in k.methods.values() for f in fs for n in _ast.walk(f.node))
    if field_name not in flds and not in_init:
        raise _AE(f"{cls_name}.{field_name} vanished")
    REORDER = {"sorted", "set", "frozenset", "reversed", "unique", "unique_in_order", "sort", "argsort", "shuffle", "fromkeys"}
    n_sites, bad = 0, []
    for k in K.mro():
        for fs in list(k.methods.values()) + [[p_] for p_ in k.properties.values()]:
            for f in fs:
                sn = f.self_name
                if sn is None:
                    continue
                for n in _ast.walk(f.node):
                    tgt, val = None, None
                    if isinstance(n, (_ast.Assign, _ast.AnnAssign, _ast.AugAssign)) and getattr(n, "value", None) is not None:
                        for t in (n.targets if isinstance(n, _ast.Assign) else [n.target]):
                            if isinstance(t, _ast.Attribute) and isinstance(t.value, _ast.Name) and t.value.id == sn and t.attr == field_name:
                                tgt, val = t, n.value
                    elif isinstance(n, _ast.Call) and _ast.unparse(n.func).endswith("__setattr__") and len(n.args) == 3 and isinstance(n.args[1], _ast.Constant) \
                            and n.args[1].value == field_name:
                        tgt, val = n, n.args[2]
                    if tgt is not None:
                        n_sites += 1
                        reads_self = any(isinstance(y, _ast.Attribute) and y.attr == field_name and isinstance(y.value, _ast.Name) and y.value.id == sn for y in _ast.walk(val))
                        calls = [(y.func.id if isinstance(y.func, _ast.Name) else y.func.attr) for y in _ast.walk(val)
                                 if isinstance(y, _ast.Call) and isinstance(y.func, (_ast.Name, _ast.Attribute))]
                        hit = [c for c in calls if c in REORDER]
                        if reads_self and hit:
                            bad.append((f, n, f"`{_ast.unparse(n)[:100]}` re-orders / de-duplicates the stored sequence ({hit[0]})"))
                    if isinstance(n, _ast.Call) and isinstance(n.func, _ast.Attribute) and n.func.attr in ("sort", "reverse") and isinstance(n.func.value, _ast.Attribute) \
                            and n.func.value.attr == field_name and isinstance(n.func.value.value, _ast.Name) and n.func.value.value.id == sn:
                        n_sites += 1
                        bad.append((f, n, f"`{_ast.unparse(n)[:100]}` re-orders the stored sequence in place"))
    rep.analysed[f"{rule} stores of {cls_name}.{field_name} in its own methods"] = n_sites
    if bad:
        for f, n, why in bad:
            rep.fail(rule, f"{cls_name}.{field_name}[order kept]", f"{f.module.relpath}:{n.lineno}", found=why, required="stored in the order it was given / built", what=what + ": " + why,
                     detail="reordered")
    else:
        rep.ok(rule, f"{cls_name}.{field_name}[order kept]", K.loc, found=f"{n_sites} store(s) in the class, none re-orders the sequence", required="stored in the order it was given / built")


DEPTH_BUDGET_RULES = {"C01": "C01.R17", "C02": "C02.L13", "C04": "C04.D8", "C05": "C05.K11", "C06": "C06.U8", "C07": "C07.A13", "C08": "C08.S7", "C09": "C09.P12",
                      "C10": "C10.T10", "C11": "C11.F9", "C13": "C13.M8", "C15": "C15.O8", "C18": "C18.W7"}
REFERENCE_DEPTH_BUDGET = 5000     # layers the walk of the reference tree visits before it gives up (MAX_GRAPH_DEPTH there)


def depth_budget_rule(model, rep, rule: str):
    """The number of layers the cached layer walk may visit is computed from the source (constant propagation through the call that starts the walk, the
    parameters and defaults of helpers it runs in, and the constructor / test of the loop guard) and must not be lower than on the reference tree: below it,
    a graph that the reference tree lists completely is cut off with a warning -- operations vanish from every listing, duration, index and export."""
    import ast as _ast
    from ..model import AnalysisError as _AE, FunctionInfo as _FI
    rep.rule(rule, f"GraphBranch._update_branch_iterator (the walk behind every node iterator, leaf lookup, listing, duration and export) visits at least "
                   f"{REFERENCE_DEPTH_BUDGET} layers before its loop guard stops it: the budget in force is computed by constant propagation through the guard's "
                   f"constructor, the helpers the walk runs in and their defaults; an unguarded walk has no bound")
    G = model.cls("GraphBranch")
    f = G.resolve("_update_branch_iterator")
    if f is None:
        raise _AE("GraphBranch._update_branch_iterator vanished")
    INF = float("inf")

    def const_eval(e, env, module):
        if isinstance(e, _ast.Constant) and isinstance(e.value, (int, float)) and not isinstance(e.value, bool):
            return e.value
        if isinstance(e, _ast.Attribute) and isinstance(e.value, _ast.Name) and "@class" in env and e.value.id in ("self", "cls", env["@class"].name):
            # a constant of the class (``self.LIMIT`` / ``Cls.LIMIT``)
            for k_ in env["@class"].mro():
                if e.attr in k_.class_attrs:
                    return const_eval(k_.class_attrs[e.attr], {}, k_.module)
                if e.attr in k_.own_fields and getattr(k_.own_fields[e.attr], "default", None) is not None and not k_.is_dataclass:
                    return const_eval(k_.own_fields[e.attr].default, {}, k_.module)
        if isinstance(e, _ast.Name):
            if e.id in env:
                return env[e.id]
            tgt = model.lookup_symbol(module, e.id)
            if isinstance(tgt, tuple) and tgt[0] == "const" and e.id not in getattr(tgt[2], "rebound", ()):
                return const_eval(tgt[1], {}, tgt[2])
            return None
        if isinstance(e, _ast.Attribute) and isinstance(e.value, _ast.Name) and e.value.id in ("np", "numpy", "math") and e.attr in ("inf", "infty"):
            return INF
        if isinstance(e, _ast.Attribute) and isinstance(e.value, _ast.Name) and e.value.id == "sys" and e.attr == "maxsize":
            return INF
        if isinstance(e, _ast.UnaryOp) and isinstance(e.op, _ast.USub):
            v = const_eval(e.operand, env, module)
            return -v if v is not None else None
        if isinstance(e, _ast.BinOp):
            a, b = const_eval(e.left, env, module), const_eval(e.right, env, module)
            if a is None or b is None:
                return None
            try:
                return {_ast.Add: a + b, _ast.Sub: a - b, _ast.Mult: a * b}.get(type(e.op)) if not isinstance(e.op, (_ast.FloorDiv, _ast.Div)) else (a // b if isinstance(e.op, _ast.FloorDiv) else a / b)
            except ZeroDivisionError:
                return None
        if isinstance(e, _ast.Call) and isinstance(e.func, _ast.Name) and e.func.id in ("min", "max", "int") and not e.keywords:
            vs = [const_eval(a, env, module) for a in e.args]
            if any(v is None for v in vs) or not vs:
                return None
            return min(vs) if e.func.id == "min" else max(vs) if e.func.id == "max" else vs[0]
        if isinstance(e, _ast.IfExp):
            # ``x if x is not None else DEFAULT``: both alternatives bound the budget from below by their minimum
            a, b = const_eval(e.body, env, module), const_eval(e.orelse, env, module)
            return min(a, b) if a is not None and b is not None else (a if b is None and isinstance(e.orelse, _ast.Constant) and e.orelse.value is None else b if a is None and isinstance(e.body, _ast.Constant) and e.body.value is None else None)
        return None

    def bind(fn_node, call, env, module, skip_self):
        """parameter -> constant for a call of ``fn_node`` (None where not a constant)"""
        a_ = fn_node.args
        params = [x.arg for x in a_.posonlyargs + a_.args]
        if skip_self and params:
            params = params[1:]
        out = {}
        dflt = dict(zip(params[::-1], list(a_.defaults)[::-1]))
        for i, arg in enumerate(call.args if call is not None else []):
            if i < len(params) and not isinstance(arg, _ast.Starred):
                out[params[i]] = const_eval(arg, env, module)
        for kw in (call.keywords if call is not None else []):
            if kw.arg in params:
                out[kw.arg] = const_eval(kw.value, env, module)
        for p_ in params:
            if p_ not in out and p_ in dflt:
                out[p_] = const_eval(dflt[p_], {}, None) if False else None
        return out, params, dflt

    def guard_budget(K, call, env, module):
        """budget enforced by ``with K(..) as loop: while .. loop.m():`` -- the field that m compares its counter with, as set by K.__init__ for this call"""
        init = K.resolve("__init__")
        if init is None:
            return None
        got, params, dflt = bind(init.node, call, env, module, True)
        ienv = {}
        for p_ in params:
            if got.get(p_) is not None:
                ienv[p_] = got[p_]
            elif p_ in dflt and p_ not in {k.arg for k in call.keywords} and params.index(p_) >= len(call.args):
                v = const_eval(dflt[p_], {}, init.module)
                if v is not None:
                    ienv[p_] = v
        fields = {}
        sn = init.self_name
        ienv["@class"] = K
        for stt in init.node.body:
            tg, val = (stt.targets[0], stt.value) if isinstance(stt, _ast.Assign) and len(stt.targets) == 1 else (stt.target, stt.value) if isinstance(stt, _ast.AnnAssign) and stt.value is not None else (None, None)
            if tg is not None and isinstance(tg, _ast.Attribute) and isinstance(tg.value, _ast.Name) and tg.value.id == sn:
                fields[tg.attr] = const_eval(val, ienv, init.module)
        return fields

    budgets = []     # (value or None, where)

    def enclosing_with_item(par, start, name):
        cur = start
        while cur in par:
            cur = par[cur]
            if isinstance(cur, _ast.With):
                for it in cur.items:
                    if isinstance(it.optional_vars, _ast.Name) and it.optional_vars.id == name and isinstance(it.context_expr, _ast.Call):
                        return it
        return None

    def walk_function(fi, env, depth, guards=None):
        guards = guards or {}        # parameter name -> (with item, environment, FunctionInfo) of a loop guard made by the caller and handed in
        par = {}
        for n in _ast.walk(fi.node):
            for ch in _ast.iter_child_nodes(n):
                par[ch] = n
        sn = fi.self_name
        for n in _ast.walk(fi.node):
            if isinstance(n, _ast.While):
                # guards named in the test
                guard_calls = [c for c in _ast.walk(n.test) if isinstance(c, _ast.Call) and isinstance(c.func, _ast.Attribute) and isinstance(c.func.value, _ast.Name)]
                bound_here = INF
                for g in guard_calls:
                    # find the with item binding that name (here, or in the caller when the guard object is a parameter)
                    item = enclosing_with_item(par, n, g.func.value.id)
                    g_env, g_fi = env, fi
                    if item is None and g.func.value.id in guards:
                        item, g_env, g_fi = guards[g.func.value.id]
                    if item is None:
                        continue
                    kname = item.context_expr.func.id if isinstance(item.context_expr.func, _ast.Name) else item.context_expr.func.attr if isinstance(item.context_expr.func, _ast.Attribute) else None
                    tgt = model.lookup_symbol(g_fi.module, kname) if kname else None
                    from ..model import ClassInfo as _CI
                    if not isinstance(tgt, _CI):
                        budgets.append((None, f"{fi.qualname}: loop guard {kname} not resolved"))
                        continue
                    fields = guard_budget(tgt, item.context_expr, g_env, g_fi.module)
                    m = tgt.resolve(g.func.attr)
                    limit = None
                    if m is not None and fields is not None:
                        msn = m.self_name
                        for c in _ast.walk(m.node):
                            if isinstance(c, _ast.Compare) and len(c.ops) == 1 and isinstance(c.ops[0], (_ast.GtE, _ast.Gt, _ast.Lt, _ast.LtE)):
                                sides = [c.left, c.comparators[0]]
                                attrs = [x.attr if isinstance(x, _ast.Attribute) and isinstance(x.value, _ast.Name) and x.value.id == msn else None for x in sides]
                                # counter OP limit : the limit is the side that __init__ sets from its argument (the counter starts at a literal 0 / is incremented here)
                                incremented = {t.target.attr for t in _ast.walk(m.node) if isinstance(t, _ast.AugAssign) and isinstance(t.target, _ast.Attribute)}
                                for a_name, other in ((attrs[0], sides[1]), (attrs[1], sides[0])):
                                    if a_name in incremented:
                                        if isinstance(other, _ast.Attribute) and isinstance(other.value, _ast.Name) and other.value.id == msn:
                                            limit = fields.get(other.attr)
                                        else:
                                            limit = const_eval(other, {}, m.module)
                    budgets.append((limit, f"{fi.qualname}: while guarded by {kname}.{g.func.attr}() -> {limit}"))
                    if limit is not None:
                        bound_here = min(bound_here, limit)
                if not guard_calls:
                    budgets.append((INF, f"{fi.qualname}: unguarded while"))
        # helpers of the same class the walk runs in (generators it iterates, functions it calls)
        if depth < 2 and fi.cls is not None:
            for n in _ast.walk(fi.node):
                if isinstance(n, _ast.Call) and isinstance(n.func, _ast.Attribute) and isinstance(n.func.value, _ast.Name) and n.func.value.id == sn:
                    h = fi.cls.resolve(n.func.attr)
                    if isinstance(h, _FI) and h is not fi and any(isinstance(x, _ast.While) for x in _ast.walk(h.node)):
                        got, params, dflt = bind(h.node, n, env, fi.module, True)
                        henv = {}
                        for p_ in params:
                            if got.get(p_) is not None:
                                henv[p_] = got[p_]
                            elif p_ in dflt and p_ not in {k.arg for k in n.keywords} and params.index(p_) >= len(n.args):
                                v = const_eval(dflt[p_], {}, h.module)
                                if v is not None:
                                    henv[p_] = v
                        # loop guards handed in as arguments
                        hguards = {}
                        for i_, a_ in enumerate(n.args):
                            if isinstance(a_, _ast.Name) and i_ < len(params):
                                it_ = enclosing_with_item(par, n, a_.id)
                                if it_ is not None:
                                    hguards[params[i_]] = (it_, env, fi)
                        for kw_ in n.keywords:
                            if kw_.arg in params and isinstance(kw_.value, _ast.Name):
                                it_ = enclosing_with_item(par, n, kw_.value.id)
                                if it_ is not None:
                                    hguards[kw_.arg] = (it_, env, fi)
                        walk_function(h, henv, depth + 1, hguards)

    walk_function(f, {}, 0)
    if not budgets:
        raise _AE("GraphBranch._update_branch_iterator: the layer walk (a while loop, here or in a helper it runs in) was not found")
    rep.analysed[f"{rule} layer-walk loops"] = [w for _, w in budgets]
    undecided = [w for v, w in budgets if v is None]
    if undecided:
        raise _AE(f"layer-walk budget not a constant: {undecided[0]}")
    budget = min(v for v, _ in budgets)
    rep.check(budget >= REFERENCE_DEPTH_BUDGET, rule, "GraphBranch._update_branch_iterator[depth budget]", f.loc,
              found=f"the walk gives up after {budget if budget != INF else 'no bound of'} layers", required=f">= {REFERENCE_DEPTH_BUDGET} layers (reference tree)",
              what=f"the layer walk behind every node iterator stops after {budget} layers (the reference tree walks {REFERENCE_DEPTH_BUDGET}): in a deeper graph the operations "
                   f"beyond it silently vanish from listings, durations, indices and exports", detail="depth-budget")


def counter_incremented(model, post, cname: str, counter: str, depth: int = 0) -> bool:
    """``post`` (a __post_init__) advances ``Cls.counter`` exactly once, unconditionally: ``Cls.n += k`` / ``Cls.n = Cls.n + k`` at the top level of its body, or a
    top-level call of a function of the package (module function, own method) that does so"""
    import ast as _ast
    from ..model import FunctionInfo as _FI
    tgt = f"{cname}.{counter}"
    n = 0
    for st in post.node.body:
        if isinstance(st, _ast.AugAssign) and isinstance(st.op, _ast.Add) and _ast.unparse(st.target) == tgt and isinstance(st.value, _ast.Constant) \
                and isinstance(st.value.value, int) and st.value.value > 0:
            n += 1
        elif isinstance(st, _ast.Assign) and len(st.targets) == 1 and _ast.unparse(st.targets[0]) == tgt and isinstance(st.value, _ast.BinOp) and isinstance(st.value.op, _ast.Add):
            a_, b_ = st.value.left, st.value.right
            if any(_ast.unparse(x_) == tgt and isinstance(y_, _ast.Constant) and isinstance(y_.value, int) and y_.value > 0 for x_, y_ in ((a_, b_), (b_, a_))):
                n += 1
        elif isinstance(st, _ast.Expr) and isinstance(st.value, _ast.Call) and depth < 2:
            f_ = st.value.func
            callee = None
            if isinstance(f_, _ast.Name):
                callee = model.lookup_symbol(post.module, f_.id)
            elif isinstance(f_, _ast.Attribute) and isinstance(f_.value, _ast.Name) and post.cls is not None and f_.value.id in (post.self_name, post.cls.name, "cls"):
                callee = post.cls.resolve(f_.attr)
            if isinstance(callee, _FI) and counter_incremented(model, callee, cname, counter, depth + 1):
                n += 1
    return n == 1


def factory_counter(model, owner_module, factory):
    """``default_factory`` of an identifier field that reads a class-level counter: ``lambda: Cls._counter`` or a named function whose single statement returns
    that expression.  Returns (class name, counter attribute) or None."""
    import ast as _ast
    body = None
    if isinstance(factory, _ast.Lambda):
        body = factory.body
    elif isinstance(factory, (_ast.Name, _ast.Attribute)):
        name = factory.id if isinstance(factory, _ast.Name) else factory.attr
        tgt = model.lookup_symbol(owner_module, name) if isinstance(factory, _ast.Name) else None
        from ..model import FunctionInfo as _FI
        if tgt is None and isinstance(factory, _ast.Attribute) and isinstance(factory.value, _ast.Name):
            c = model.maybe_cls(factory.value.id)
            tgt = c.resolve(name) if c is not None else None
        if isinstance(tgt, _FI):
            stmts = [st for st in tgt.node.body if not (isinstance(st, _ast.Expr) and isinstance(st.value, _ast.Constant))]
            if len(stmts) == 1 and isinstance(stmts[0], _ast.Return) and stmts[0].value is not None:
                body = stmts[0].value
    if isinstance(body, _ast.Attribute) and isinstance(body.value, _ast.Name) and model.maybe_cls(body.value.id) is not None:
        return body.value.id, body.attr
    return None


_PY_TEXT = {
    "PY1": "no closure created per loop iteration reads the loop's variables late while being stored for later use (late binding: every stored closure would see the last value)",
    "PY2": "no one-shot iterator (generator expression, map / filter / zip / reversed / enumerate object bound to a name) is consumed twice or inside a repeated loop",
    "PY3": "no container created outside a loop is stored into a collection and then changed in place in that loop without being rebound (all stored entries would be one object)",
    "PY4": "no mutable default argument that the function changes or keeps, no `[<mutable>] * n`, no dict.fromkeys(keys, <mutable>)",
    "PY6": "no float-typed value (end_time, start_time, duration ...) is stored into an array created with an integer dtype or integer fill value (numpy truncates silently)",
    "PY7": "no dataclass fills a defaulted INIT field in __post_init__ from other init fields (the derived value is passed on by dataclasses.replace and goes stale)",
    "PY8": "no __post_init__ / __init__ overrides one of a base class that stores fields without calling it (the base set-up is skipped for the subclass)",
    "PY9": "no itertools.groupby over an unsorted iterable whose groups are stored under their key (a key that re-appears overwrites its earlier run)",
    "PY10": "no memoised accessor (cached_property / lru_cache) is computed from a mutable container field of the same object",
    "PY11": "no subclass re-declares an inherited dataclass init field as a plain (un-annotated) class attribute: the inherited __init__ hides it on every instance",
    "PY5": "no truth test of a value declared Optional[T] where T has falsy legitimate values (0, '', a zero-valued IntEnum member, an object with __len__ / __bool__): None is tested with `is None`",
}


def property_scope(prop_id: str):
    """Modules a property rests on for the data-model lints: the files its anchors name (read from /verif/properties.jsonl, which is given and fixed)."""
    import json as _json
    import os as _os
    path = _os.path.join(_os.path.dirname(_os.path.dirname(_os.path.dirname(_os.path.abspath(__file__)))), "properties.jsonl")
    files = set()
    with open(path) as fh:
        for line in fh:
            line = line.strip()
            if not line:
                continue
            d = _json.loads(line)
            if d.get("id") == prop_id:
                for f in d.get("anchors", {}).get("files", []):
                    files.add(f)
    return files


def python_slips_rule(model, rep, prop_id: str):
    """Slips of the Python data model in the modules this property rests on (qcolint.pylints): reported only in shapes in which they are certain."""
    from ..pylints import scan, self_check
    self_check()
    files = property_scope(prop_id)
    if not files:
        raise AnalysisError(f"{prop_id}: no anchor files in properties.jsonl")

    def keep(mod) -> bool:
        rel = mod.relpath.replace("\\", "/")
        return rel in files
    slips, n = scan(model, keep)
    for k, txt in _PY_TEXT.items():
        rep.rule(f"{prop_id}.{k}", txt + " -- in the files this property's anchors name")
    rep.floor(f"{prop_id}.PY functions scanned for data-model slips", n, 5)
    rep.analysed[f"{prop_id}.PY scope"] = sorted(files)
    by_kind = {}
    for sl in slips:
        by_kind.setdefault(sl.kind, []).append(sl)
        rep.fail(f"{prop_id}.{sl.kind}", f"{sl.fn.qualname}[{sl.detail}]", sl.loc, found=sl.what[:300], required=_PY_TEXT[sl.kind][:120], what=sl.what, detail=sl.detail)
    for k in _PY_TEXT:
        if k not in by_kind:
            rep.ok(f"{prop_id}.{k}", f"{prop_id} modules[{k}]", sorted(files)[0], found=f"none in {n} functions of {len(files)} anchor files", required="none")
