"""C13 -- index kernels agree with the experiment circuit they describe (claimed in part).

Equality of the concrete index arrays needs the listing order at run time and is NOT decided.  Decided:

M1  per-block counts: the number of acquisitions the constructed round block makes per ancilla (1 heralded + one parity measurement per
    round, rounds summing to the cycle count; 1 + 1 for 0 cycles) equals the kernel length of the repetition kernel with heralded
    initialisation, as piecewise-affine forms in the cycle count (0..8 exactly, k+9 symbolically); the calibration block makes
    3 x (heralded + final) acquisitions per qubit == the calibration kernel length 3h + 3 with h = 1.
M2  order of tags: heralded, then parity, then final inside a block; calibration states in the order 0, 1, 2, heralded before the
    projection in each -- the order of the kernel's increasing offsets (C12.X2 / X3).
M3  block order: rounds in the order of the rounds list, calibration last (= C11.F3), kernels chained in the same order (= C12.X1).
"""
from __future__ import annotations

from fractions import Fraction
from typing import Dict, List, Optional, Tuple

from ..builder import Emit, emits
from ..model import AnalysisError, Model
from ..paths import Path, PathEnumerator
from ..report import Report
import ast as ast
from ..sym import FALSE, NONE, TRUE, Evaluator, Frame, Term, as_lin, atoms_of, lin, number, show, subst, subterms, sym, t_add, t_scale
from .c09 import CC, REGIONS, TAIL, p1, qec_paths, region_path, reps_of, sub_circuits
from .c12 import K, KernelCase, ONE, ZERO, resolve_max, x1, x2, x3, x4
from .common import devar, share_rule


def check(model: Model, rep: Report, tier: str):
    with rep.isolated():
        m1(model, rep)
    with rep.isolated():
        m2(model, rep)
    from .c11 import f3
    with rep.isolated():
        f3(model, rep, "C13.M3")
    rep.rules_text["C13.M3"] = ("blocks of the multi-round circuit follow the rounds list in order, each built with the caller's description and initial state, unrolled and flattened, "
                                "with the QUTRIT calibration block last (= C11.F3); the experiment kernel chains one kernel per round in the same order and the calibration kernel last (= C12.X1)")
    with rep.isolated():
        share_rule(rep, model, x1, "C13.M3", rep.rules_text["C13.M3"])
    with rep.isolated():
        share_rule(rep, model, lambda m, r: p1(m, r, "C13.M1"), "C13.M1", rep.rules_text.get("C13.M1", ""))
    with rep.isolated():
        share_rule(rep, model, x2, "C13.M1", rep.rules_text.get("C13.M1", ""))
    with rep.isolated():
        share_rule(rep, model, x3, "C13.M1", rep.rules_text.get("C13.M1", ""))
    from .c05 import k10
    with rep.isolated():
        k10(model, rep, "C13.M5")
    from .c07 import a9
    with rep.isolated():
        a9(model, rep, "C13.M6")
    with rep.isolated():
        m10(model, rep)
    from .c06 import u4 as _u4
    with rep.isolated():
        share_rule(rep, model, _u4, "C13.M9", "every round circuit is unrolled before it is flattened: DeclarativeCircuit.apply_modifiers unrolls the structure it holds at every "
                   "depth, unconditionally (= C06.U4); a shortcut that looks at the top level only leaves the repeated QEC block rolled and the later acquisition indices shift")
    from .c01 import r6
    with rep.isolated():
        share_rule(rep, model, r6, "C13.M7", "flattening a round re-inserts every operation through add_to_graph: an operation whose reference was dissolved goes behind the latest "
                   "node on its channels (not to the root), so the single ancilla measurement of a 0-round block stays behind that block's heralding measurement (= C01.R6)")
    rep.rules_text["C13.M6"] = ("every round of the multi-round circuit is unrolled and flattened before it is nested: apply_modifiers / flatten hand back the SAME structure object "
                                "the round's measurements index (= C07.A9) -- a rebuilt structure leaves their registries behind and the nested copies report index -1")
    with rep.isolated():
        share_rule(rep, model, x4, "C13.M4", "what the experiment kernel reports for a block of n rounds is read from THE kernel of that block (selected by its own round count, over the "
                                             "whole kernel list) and translated per experiment repetition by the cycle length (= C12.X4): a getter that answers with another block's "
                                             "indices disagrees with the circuit block by block even when all totals agree")


def _measure_emits(model: Model, fname: str, module: str = CC):
    f = model.function(module, fname)
    opaque = {x.qualname for x in model.all_functions() if x.cls is not None and x.cls.name in ("IRepetitionCodeDescription", "ICalibrationDescription")}
    ev = Evaluator(model, inline_methods=False, opaque=opaque)
    ps = PathEnumerator(ev).function_paths(f)
    return f, ev, ps


def _unread_emits(name: str, es) -> None:
    """Operations that reach add() through a generator / helper are not read as 'no measurement'."""
    if not es or any(e.cls is None and (not e.loops or "localdef" in show(e.loops[-1]) or "fn" in show(e.loops[-1])[:6]) for e in es):
        if not any(e.cls == "DispersiveMeasure" for e in es):
            raise AnalysisError(f"{name}: what is added is produced by a generator / helper and not read as a sequence of operations")


def m1(model: Model, rep: Report):
    rep.rule("C13.M1", "acquisitions per ancilla in one round block = 1 (heralded, every measured qubit) + sum over sub-circuits of repetitions x 1 (one 'parity' measurement per measured "
                       "ancilla per round) [+ 1 'final' ancilla measurement for 0 cycles] == RepetitionIndexKernel.kernel_length with heralded initialisation, for cycles 0..8 and k+9; "
                       "the final measurement block measures data qubits only; the calibration block makes 3 x (1 heralded + 1 final) per qubit == QutritCalibrationIndexKernel length with h = 1")
    # heralded part: one measurement per measured qubit
    f, ev, ps = _measure_emits(model, "get_circuit_initialize_with_heralded")
    her = 0
    for p in [q for q in ps if q.exit == "return"]:
        _unread_emits("get_circuit_initialize_with_heralded", emits(p, p.value))
        ms = [e for e in emits(p, p.value) if e.cls == "DispersiveMeasure"]
        ok = len(ms) == 1 and len(ms[0].loops) == 1 and "measure_qubit_indices" in show(ms[0].loops[0]) and ms[0].field("acquisition_tag") == ("const", "heralded") and not atoms_of(ms[0].cond)
        her = 1 if ok else -1
        rep.check(ok, "C13.M1", "get_circuit_initialize_with_heralded[one heralded acquisition per measured qubit]", f.loc, found=[repr(m) for m in ms], required="exactly one 'heralded' DispersiveMeasure per connectivity.measure_qubit_indices",
                  what="the number of heralded acquisitions per qubit is not 1 (kernel assumes one)", detail="heralded-count")
    # one parity measurement per round per ancilla in both round builders
    per_round = {}
    for name in ("get_circuit_qec_round", "get_circuit_qec_round_with_dynamical_decoupling"):
        g, evg, gps = _measure_emits(model, name)
        for p in [q for q in gps if q.exit == "return"]:
            _unread_emits(name, emits(p, p.value))
            ms = [e for e in emits(p, p.value) if e.cls == "DispersiveMeasure"]
            ok = len(ms) == 1 and len(ms[0].loops) == 1 and "measure_ancilla_qubit_indices" in show(ms[0].loops[0]) and ms[0].field("acquisition_tag") == ("const", "parity") and not atoms_of(ms[0].cond)
            per_round[name] = 1 if ok else -1
            rep.check(ok, "C13.M1", f"{name}[one parity acquisition per ancilla per round]", g.loc, found=[repr(m) for m in ms], required="exactly one 'parity' DispersiveMeasure per connectivity.measure_ancilla_qubit_indices",
                      what="a round acquires an ancilla zero or several times (kernel assumes one per round)", detail=f"parity-count:{name}")
    # final measurement: data qubits only
    h, evh, hps = _measure_emits(model, "get_circuit_final_measurement")
    for p in [q for q in hps if q.exit == "return"]:
        _unread_emits("get_circuit_final_measurement", emits(p, p.value))
        ms = [e for e in emits(p, p.value) if e.cls == "DispersiveMeasure"]
        ok = len(ms) == 1 and len(ms[0].loops) == 1 and "measure_data_qubit_indices" in show(ms[0].loops[0]) and ms[0].field("acquisition_tag") == ("const", "final")
        rep.check(ok, "C13.M1", "get_circuit_final_measurement[data qubits only]", h.loc, found=[repr(m) for m in ms], required="one 'final' DispersiveMeasure per connectivity.measure_data_qubit_indices",
                  what="ancilla qubits get an extra (or data qubits no) final acquisition", detail="final-count")
    # circuit side count vs kernel length, region by region
    f2, ev2, qps = qec_paths(model)
    n = sym(f2.param_names[1])
    # the single ancilla acquisition of a 0-round block closes the block: it carries the 'final' tag (the kernel reports no stabiliser index there)
    p00 = region_path(qps, n, ZERO)
    ms0 = [e for e in emits(p00, p00.value) if e.cls == "DispersiveMeasure"]
    rep.check(len(ms0) == 1 and ms0[0].field("acquisition_tag") == ("const", "final"), "C13.M1", "get_circuit_qec_with_detectors[0 rounds: ancilla acquisition tagged final]", f2.loc,
              found=[show(m.field("acquisition_tag")) if m.field("acquisition_tag") is not None else None for m in ms0], required="'final'",
              what="the ancilla acquisition of a 0-round block is reported under another category than the kernel's", detail="zero-tag")
    Kc = model.cls("RepetitionIndexKernel")
    regions = [("n=0", ZERO)] + REGIONS
    for rname, val in regions:
        p = region_path(qps, n, val)
        if rname == "n=0":
            extra = [e for e in emits(p, p.value) if e.cls == "DispersiveMeasure"]
            rounds: Term = lin({}, Fraction(len(extra)))   # one direct ancilla measurement
        else:
            rounds = ZERO
            for e in sub_circuits(p):
                r = reps_of(e)
                if r is None:
                    raise AnalysisError("non-fixed repetition strategy in get_circuit_qec_with_detectors")
                rounds = t_add(rounds, resolve_max(subst(r, {n: val})))
        circuit_count = t_add(lin({}, Fraction(1)), rounds)     # 1 heralded + rounds x 1
        kc = KernelCase(model, Kc, True, val, "ancilla", "involved_data_qubit_ids", "involved_ancilla_qubit_ids", None)
        klen = kc.value("kernel_length")
        rep.check(klen == circuit_count and her == 1 and all(v == 1 for v in per_round.values()), "C13.M1", f"acquisitions per ancilla vs kernel length[{rname}]", f2.loc, found=f"circuit: {show(circuit_count)}; kernel_length: {show(klen)}",
                  required="equal", what=f"for a block of {rname} cycles the circuit acquires each ancilla {show(circuit_count)} times but the kernel reserves {show(klen)} indices: all later indices shift", detail=f"count:{rname}")
    # calibration block
    c, evc, cps = _measure_emits(model, "get_circuit_calibrate_with_heralded", "state_calibration.circuit_components")
    per_state = None
    for p in [q for q in cps if q.exit == "return"]:
        ms = [e for e in emits(p, p.value) if e.cls == "DispersiveMeasure"]
        tags = [m.field("acquisition_tag")[1] if m.field("acquisition_tag") and m.field("acquisition_tag")[0] == "const" else None for m in ms]
        ok = tags == ["heralded", "final"] and all(len(m.loops) == 1 and m.loops[0] == sym(c.param_names[0]) and not atoms_of(m.cond) for m in ms)
        per_state = 2 if ok else -1
        rep.check(ok, "C13.M1", "get_circuit_calibrate_with_heralded[acquisitions per qubit and state]", c.loc, found=tags, required=["heralded", "final"], what="a calibration point does not consist of one heralded and one projected acquisition per qubit", detail="cal-count")
    d = model.function("state_calibration.circuit_constructors", "construct_calibration_circuit")
    evd = Evaluator(model, inline_methods=False)
    dps = PathEnumerator(evd).function_paths(d)
    desc = sym(d.param_names[0])
    inc = lambda k: ("call", ("attr", desc, "includes_state_calibration"), (), (("state", ("enum", "StateKey", f"STATE_{k}")),))
    full = [p for p in dps if p.exit == "return" and subst(p.cond, {inc(0): TRUE, inc(1): TRUE, inc(2): TRUE}) == TRUE]
    if len(full) != 1:
        raise AnalysisError("construct_calibration_circuit: path with all three states not found")
    blocks = [e for e in emits(full[0], full[0].value) if e.cls == "circuit_components.get_circuit_calibrate_with_heralded"]
    states = [dict(b.term[3]).get("state") for b in blocks]
    n_states = len(blocks)
    Q = model.cls("QutritCalibrationIndexKernel")
    kq = KernelCase(model, Q, True, None, "data", None, None, "involved_qubit_ids")
    qlen = kq.value("kernel_length")
    count = lin({}, Fraction(n_states * (per_state or 0)))
    if number(qlen) is None:
        # the kernel length depends on fields the rule does not fix (inherited repetitions / f_state): not read, not wrong
        raise AnalysisError(f"QutritCalibrationIndexKernel.kernel_length: {show(qlen)[:140]} is not a number for heralded initialisation; not read")
    rep.check(qlen == count, "C13.M1", "calibration acquisitions per qubit vs calibration kernel length", d.loc, found=f"circuit: {n_states} states x {per_state} = {show(count)}; kernel_length: {show(qlen)}", required="equal (6 with heralded initialisation)",
              what="the calibration block and the calibration kernel disagree on the number of acquisitions per qubit", detail="cal-length")
    # QUTRIT includes all three states
    CD = model.cls("CalibrationDescription")
    inc_f = CD.resolve("includes_state_calibration")
    outs = Evaluator(model).eval_function(inc_f, self_cls=CD)
    from ..sym import bool_value
    formula = bool_value(outs)
    s_, st = sym(inc_f.self_name), sym(inc_f.param_names[1])
    bad = []
    for k in (0, 1, 2):
        v = subst(formula, {("attr", s_, "_type"): ("enum", "CalibrateType", "QUTRIT"), st: ("enum", "StateKey", f"STATE_{k}")})
        if v != TRUE:
            bad.append(f"STATE_{k} not included")
    rep.check(not bad, "C13.M1", "CalibrationDescription.includes_state_calibration[QUTRIT]", inc_f.loc, found=bad or "states 0, 1, 2 included", required="a qutrit calibration includes states 0, 1 and 2", what="the qutrit calibration block misses a state the kernel reserves indices for", detail="qutrit-states")
    rep.analysed["C13.M1 calibration states order"] = [show(s) for s in states]


def m2(model: Model, rep: Report):
    rep.rule("C13.M2", "inside a round block the heralded acquisitions precede the parity acquisitions, which precede the final ones (order of the builder calls in "
                       "construct_repetition_code_circuit); calibration blocks are added in the state order 0, 1, 2 and acquire heralded before projected -- the order of the kernel's increasing offsets")
    g = model.function("repetition_code.circuit_constructors", "construct_repetition_code_circuit")
    ev = Evaluator(model, inline_methods=False)
    ps = PathEnumerator(ev).function_paths(g)
    for p in [q for q in ps if q.exit == "return"]:
        seen = []
        for e in emits(p, p.value):
            if e.cls and e.cls.startswith("circuit_components.get_circuit_") and e.cls not in seen:
                seen.append(e.cls)
        want = ["circuit_components.get_circuit_initialize_with_heralded", "circuit_components.get_circuit_qec_with_detectors", "circuit_components.get_circuit_final_measurement"]
        rep.check(seen == want, "C13.M2", "construct_repetition_code_circuit[heralded, parity, final]", g.loc, found=seen, required=want, what="acquisition categories of a block come in another order than the kernel's offsets", detail="tag-order")
    d = model.function("state_calibration.circuit_constructors", "construct_calibration_circuit")
    evd = Evaluator(model, inline_methods=False)
    dps = PathEnumerator(evd).function_paths(d)
    desc = sym(d.param_names[0])
    inc = lambda k: ("call", ("attr", desc, "includes_state_calibration"), (), (("state", ("enum", "StateKey", f"STATE_{k}")),))
    for p in [q for q in dps if q.exit == "return" and subst(q.cond, {inc(0): TRUE, inc(1): TRUE, inc(2): TRUE}) == TRUE]:
        blocks = [e for e in emits(p, p.value) if e.cls == "circuit_components.get_circuit_calibrate_with_heralded"]
        states = [dict(b.term[3]).get("state") for b in blocks]
        want = [("enum", "StateKey", f"STATE_{k}") for k in (0, 1, 2)]
        qi = ("attr", desc, "qubit_indices")
        ok = states == want and all(_same_qubits(dict(b.term[3]).get("qubit_indices"), desc) for b in blocks)
        rep.check(ok, "C13.M2", "construct_calibration_circuit[state order 0, 1, 2]", d.loc, found=[show(s) for s in states], required="STATE_0, STATE_1, STATE_2 on all calibration qubits", what="calibration points are acquired in another order than the calibration kernel's offsets", detail="state-order")
    # each state guarded by its own inclusion test
    for k in (0, 1, 2):
        only = {inc(j): (TRUE if j == k else FALSE) for j in (0, 1, 2)}
        hit = [q for q in dps if q.exit == "return" and subst(q.cond, only) == TRUE]
        ok = len(hit) == 1
        if ok:
            blocks = [e for e in emits(hit[0], hit[0].value) if e.cls == "circuit_components.get_circuit_calibrate_with_heralded"]
            ok = [dict(b.term[3]).get("state") for b in blocks] == [("enum", "StateKey", f"STATE_{k}")]
        rep.check(ok, "C13.M2", f"construct_calibration_circuit[STATE_{k} iff included]", d.loc, found=len(hit), required="block for a state exactly when the description includes it", what="a calibration state is emitted under another state's inclusion test", detail=f"state-guard:{k}")


def _same_qubits(t: Optional[Term], desc: Term) -> bool:
    return t is not None and "qubit_indices" in show(devar(t)) or (t is not None and subterms(devar(t), lambda y: y == desc) != [])


def m10(model: Model, rep: Report):
    rep.rule("C13.M10", "the calibration block is put on the channels the experiment blocks use: a description's circuit_channel_map is keyed by "
                        "map_qubit_id_to_circuit_index(q) for every q of qubit_ids (the index space of every other builder), not by the position of q in a list; the multi-round "
                        "constructor derives the calibration description's index map from it")
    C = model.cls("IRepetitionCodeDescription")
    f = C.resolve("circuit_channel_map")
    if f is None:
        raise AnalysisError("IRepetitionCodeDescription.circuit_channel_map not found")
    ev = Evaluator(model, inline_methods=False)
    s = sym(f.self_name or "self")
    ev.set_type(s, C)
    v = devar(ev.attr(s, "circuit_channel_map", Frame(f, f.module, {}, C, 0)))
    construct = "IRepetitionCodeDescription.circuit_channel_map"
    if v[0] != "dictcomp" or len(v[3]) != 1:
        raise AnalysisError(f"{construct}: {show(v)[:140]} is not one mapping over the qubits; not read")
    key, val, gens = v[1], v[2], v[3]
    dom, conds = gens[0]
    # dict(zip(<circuit indices of the qubits>, <the qubits>)): the pairs of the same mapping, written as two parallel lists over the same qubit list
    if dom[0] == "call" and dom[1] == "zip" and len(dom[2]) == 2 and not dom[3] and not conds and key[0] == "item" and key[2] == 0 and val[0] == "item" and val[2] == 1 \
            and key[1] == val[1] and key[1][0] == "bound":
        ks, vs = dom[2]
        want_q = ("attr", s, "qubit_ids")
        ks_ok = False
        if ks[0] == "comp" and len(ks[3]) == 1 and ks[3][0] == (want_q, ()):
            e_ = ks[2]
            a_ = (list(e_[2]) + [x for _, x in e_[3]]) if e_[0] == "call" else []
            ks_ok = e_[0] == "call" and e_[1] == ("attr", s, "map_qubit_id_to_circuit_index") and len(a_) == 1 and a_[0][0] == "bound"
        elif ks[0] == "call" and ks[1] in ("map", "list"):
            inner = ks if ks[1] == "map" else (ks[2][0] if ks[2] else None)
            ks_ok = inner is not None and inner[0] == "call" and inner[1] == "map" and len(inner[2]) == 2 and inner[2][1] == want_q and \
                inner[2][0] in (("attr", s, "map_qubit_id_to_circuit_index"), ("fn", f"{C.name}.map_qubit_id_to_circuit_index"))
        if ks_ok:
            rep.check(vs == want_q, "C13.M10", construct, f.loc, found=show(v), required="{self.map_qubit_id_to_circuit_index(q): q for q in self.qubit_ids}",
                      what="the circuit indices and the qubits they are paired with come from different lists", detail="channel-map")
            key = None
    if key is None:
        ok = True      # the zip form was decided above
    else:
        positional = any(x[0] == "call" and x[1] in ("enumerate", "range") for x in subterms(dom, lambda t: t[0] == "call")) or \
            any(x[0] == "call" and isinstance(x[1], tuple) and x[1][0] == "attr" and x[1][2] == "index" for x in subterms(key, lambda t: t[0] == "call"))
        mapped = key[0] == "call" and isinstance(key[1], tuple) and key[1][0] == "attr" and key[1][1] == s and key[1][2] == "map_qubit_id_to_circuit_index"
        if mapped:
            args = list(key[2]) + [a for _, a in key[3]]
            ok = dom == ("attr", s, "qubit_ids") and not conds and args == [val] and val[0] == "bound"
        elif positional:
            ok = False
        else:
            raise AnalysisError(f"{construct}: key {show(key)[:120]} is neither map_qubit_id_to_circuit_index(q) nor a list position; not read")
    rep.check(ok, "C13.M10", construct, f.loc, found=show(v), required="{self.map_qubit_id_to_circuit_index(q): q for q in self.qubit_ids}",
              what="the channel map is keyed by the position of a qubit in a list (or covers other qubits), not by its circuit index: for a description whose channels are not "
                   "0..n-1 in listing order the calibration block lands on other channels than the experiment blocks and the kernels' calibration indices describe acquisitions "
                   "that are not there", detail="channel-map")
    cands = [fn for fn in model.all_functions() if fn.name == "construct_repetition_code_multi_round_circuit"]
    g = cands[0] if cands else None
    if g is None:
        raise AnalysisError("construct_repetition_code_multi_round_circuit not found")
    uses = any(isinstance(n, ast.Attribute) and n.attr in ("circuit_channel_map", "map_qubit_id_to_circuit_index") for n in ast.walk(g.node))
    calib = [c for c in ast.walk(g.node) if isinstance(c, ast.Call) and isinstance(c.func, ast.Name) and c.func.id == "CalibrationDescription"]
    if not calib:
        raise AnalysisError("construct_repetition_code_multi_round_circuit: CalibrationDescription(..) not found")
    rep.check(uses, "C13.M10", "construct_repetition_code_multi_round_circuit[calibration channels]", g.loc, found="index map of the calibration description built without the description's map",
              required="built from description.circuit_channel_map / map_qubit_id_to_circuit_index", what="the calibration block does not use the experiment's channel numbering",
              detail="calibration-map")
