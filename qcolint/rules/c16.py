"""C16 -- simultaneous two-qubit gates are accepted iff they cannot collide in frequency (claimed in part).

Exhaustive enumeration over edge subsets is model checking, not this family.  Decided here:

Q1  is_equal_to / is_higher_than / is_lower_than tabulated over the 3 x 3 frequency groups == the strict order LOW < MID < HIGH.
Q2  table facts: every device qubit has a frequency group; every device edge joins two different groups.
Q3  on_moving_side == (edge contains q) and group(q) higher than group(partner).
Q4  skeleton of get_requires_parking: spectator and not edge-included and EXISTS involved neighbour (higher and moving), over whole lists.
Q5  get_requires_idle is its mirror (lower and not moving).
Q6  the generator: subgroup combinations partition their input (recursion removes exactly the chosen combination, stops on empty);
    a sequence is kept iff no subgroup failed get_mutually_allowed, which tests every ordered pair of the step.
"""
from __future__ import annotations

import ast
import itertools
from fractions import Fraction
from typing import Dict, List, Optional, Tuple

from ..model import AnalysisError, FunctionInfo, Model
from ..paths import Path, PathEnumerator, find_calls
from ..report import Report
from ..sym import (FALSE, NONE, TRUE, Evaluator, Frame, Term, Unsupported, atoms_of, bool_value, const, lin, number, show, subst, subterms, sym,
                   t_and, t_cmp, t_not, t_or)
from .common import call_args, is_call_of, loop_of, norm_stmt
from .c16_domain import Misaligned, N, first_edge, involved, read_domain

ORDER = {"LOW": 0, "MID": 1, "HIGH": 2}


def check(model: Model, rep: Report, tier: str):
    with rep.isolated():
        q1(model, rep)
    with rep.isolated():
        q2(model, rep)
    with rep.isolated():
        q3(model, rep)
    with rep.isolated():
        q4_q5(model, rep)
    with rep.isolated():
        q6(model, rep)
    with rep.isolated():
        q7(model, rep)
    with rep.isolated():
        q9(model, rep)
    with rep.isolated():
        q8(model, rep)
    with rep.isolated():
        q10(model, rep)
    with rep.isolated():
        q11(model, rep)
    with rep.isolated():
        q12(model, rep)
    with rep.isolated():
        q13(model, rep)
    with rep.isolated():
        q14(model, rep)


# Surface-17 device data (specification): frequency level of every qubit, and the 24 couplings.
SPEC_GROUPS = {**{f"D{i}": "LOW" for i in (1, 2, 3, 7, 8, 9)}, **{f"D{i}": "HIGH" for i in (4, 5, 6)}, **{f"X{i}": "MID" for i in (1, 2, 3, 4)}, **{f"Z{i}": "MID" for i in (1, 2, 3, 4)}}
SPEC_EDGES = {frozenset(p.split("-")) for p in (
    "D1-Z1 D1-X1 D2-Z1 D2-X1 D2-X2 D3-X2 D3-Z2 D4-Z3 D4-Z1 D4-X3 D5-Z1 D5-X2 D5-X3 D5-Z4 D6-Z2 D6-X2 D6-Z4 D7-Z3 D7-X3 D8-X3 D8-Z4 D8-X4 D9-Z4 D9-X4 D4-X3".split())}


def q14(model: Model, rep: Report):
    """The device the rules are stated on: frequency levels and couplings of Surface-17."""
    rep.trust("spec: Surface-17 frequency levels (D4 D5 D6 high; X1-X4, Z1-Z4 mid; D1 D2 D3 D7 D8 D9 low)")
    rep.rule("C16.Q14", "Surface17Layer's frequency-level table assigns every qubit the level of the Surface-17 specification (one entry per qubit, compared as a map): the "
                        "acceptance and parking rules are stated relative to these levels, so one edited entry changes which steps are accepted around that qubit")
    tb = surface_tables(model)
    got = tb["groups"]
    L = model.cls("Surface17Layer")
    bad = sorted(f"{q}: {got.get(q)} (spec {lv})" for q, lv in SPEC_GROUPS.items() if got.get(q) != lv)
    extra = sorted(q for q in got if q not in SPEC_GROUPS)
    rep.check(not bad and not extra, "C16.Q14", "Surface17Layer._frequency_group_lookup", L.loc, found="; ".join(bad + [f"unknown qubit {q}" for q in extra]) or f"{len(got)} entries as specified",
              required="the Surface-17 levels", what="the frequency level of a qubit differs from the device specification: " + "; ".join(bad + extra) +
              " -- gates next to it are accepted / parked by the wrong level", detail="levels")
    rep.floor("frequency-level entries", len(got), 17)


def q13(model: Model, rep: Report):
    """The step generator schedules what the partition helper hands back: every element of every subgroup must survive the helper's de-duplication."""
    rep.rule("C16.Q13", "generate_unique_subgroup_combinations: the canonical form under which a partition is de-duplicated -- and which is what the function returns -- is "
                        "built from the subgroups by element-preserving steps only (sorted / tuple / list / frozenset and comprehensions over them): a form that keeps "
                        "only part of a subgroup (its minimum and maximum, a slice) loses requested gates for subgroup sizes other than that part")
    f = model.function("combinatorics", "generate_unique_subgroup_combinations")
    PRESERVING = {"sorted", "tuple", "list", "frozenset"}
    adds = []
    for fn_node in [x for x in ast.walk(f.node) if isinstance(x, ast.FunctionDef)]:
        params = [a.arg for a in fn_node.args.args]
        single = {}
        for st in ast.walk(fn_node):
            if isinstance(st, (ast.Assign, ast.AnnAssign)) and st.value is not None:
                for t in (st.targets if isinstance(st, ast.Assign) else [st.target]):
                    if isinstance(t, ast.Name):
                        single.setdefault(t.id, []).append(st.value)
        for c in ast.walk(fn_node):
            if isinstance(c, ast.Call) and isinstance(c.func, ast.Attribute) and c.func.attr == "add" and isinstance(c.func.value, ast.Name) and c.func.value.id in params \
                    and len(c.args) == 1:
                adds.append((fn_node, c, params, single))
    if not adds:
        raise AnalysisError("generate_unique_subgroup_combinations: the de-duplicating `<set parameter>.add(<canonical form>)` was not found (shape not recognised)")
    n = 0
    for fn_node, call, params, single in adds:
        n += 1

        def preserving(e, bases, depth=0):
            if depth > 12:
                return False, "too deep"
            if isinstance(e, ast.Name):
                if e.id in bases:
                    return True, ""
                if e.id in single and len(single[e.id]) == 1:
                    return preserving(single[e.id][0], bases, depth + 1)
                return False, f"`{e.id}` is not one of the subgroup containers"
            if isinstance(e, ast.Call) and isinstance(e.func, ast.Name) and e.func.id in PRESERVING and len(e.args) == 1:
                return preserving(e.args[0], bases, depth + 1)
            if isinstance(e, (ast.ListComp, ast.GeneratorExp)) and len(e.generators) == 1 and not e.generators[0].ifs:
                g = e.generators[0]
                ok, why = preserving(g.iter, bases, depth + 1)
                if not ok:
                    return ok, why
                if not isinstance(g.target, ast.Name):
                    return False, "the subgroup is unpacked"
                return preserving(e.elt, set(bases) | {g.target.id}, depth + 1)
            if isinstance(e, ast.Call) and isinstance(e.func, ast.Name) and e.func.id == "map" and len(e.args) == 2 and isinstance(e.args[0], ast.Name) and e.args[0].id in PRESERVING:
                return preserving(e.args[1], bases, depth + 1)
            lossy = [x for x in ast.walk(e) if (isinstance(x, ast.Call) and isinstance(x.func, ast.Name) and x.func.id in ("min", "max", "sum", "len", "next", "hash"))
                     or isinstance(x, ast.Subscript)]
            if not lossy:
                raise AnalysisError(f"generate_unique_subgroup_combinations: canonical form `{ast.unparse(e)[:100]}` not read (neither element-preserving steps nor a known lossy one)")
            return False, f"`{ast.unparse(e)[:80]}` keeps only part of its argument ({ast.unparse(lossy[0])[:40]})"
        # the containers of subgroups: the other parameters of the recursive helper (the accumulated subgroups)
        bases = {p_ for p_ in params if p_ != call.func.value.id}
        ok, why = preserving(call.args[0], bases)
        rep.check(ok, "C16.Q13", "generate_unique_subgroup_combinations[canonical form]", f"{f.module.relpath}:{call.lineno}", found=ast.unparse(call.args[0])[:160] if ok else why,
                  required="sorted / tuple / list forms of ALL elements of every subgroup",
                  what="the partitions handed to the step generator are not the subgroups that were formed: " + why + " -- for subgroup sizes other than the kept part, requested "
                       "gates are missing from the emitted steps (or a gate appears twice)", detail="canonical")
    rep.floor("de-duplication sites of the partition helper", n, 1)


def q12(model: Model, rep: Report):
    """An operation is what it is (identifier, type) however it was made."""
    rep.rule("C16.Q12", "Operation.type_idle / type_park / type_gate build plain Operation objects: dataclass equality is class-strict, so a factory that returns a subclass makes "
                        "Operation(identifier, type) unequal to the factory-built operation on the same identifier -- the acceptance test compares requested operations with the "
                        "allowed ones by equality and then rejects every gate made with the constructor")
    from .c05 import eq_kind
    O = model.cls("Operation")
    n = 0
    for nm in ("type_idle", "type_park", "type_gate"):
        f = O.resolve(nm)
        if f is None:
            raise AnalysisError(f"Operation.{nm} vanished")
        try:
            v = Evaluator(model, inline_methods=False).value_of(f, self_cls=O)
        except Unsupported as e:
            raise AnalysisError(f"Operation.{nm}: {e}")
        n += 1
        built = v[1] if v is not None and v[0] == "new" else None
        if built is None and v is not None and v[0] == "call" and isinstance(v[1], tuple) and v[1][0] in ("cls", "sym"):
            built = "Operation"         # cls(...): the class the factory was called on
        if built is None:
            raise AnalysisError(f"Operation.{nm}: value {show(v)[:80]} is not a construction")
        K = model.maybe_cls(built)
        strict = K is not None and K is not O and O in K.mro() and eq_kind(K) == "generated"
        rep.check(not strict, "C16.Q12", f"Operation.{nm}", f.loc, found=f"builds {built}" + (" (dataclass subclass: generated __eq__ compares the class too)" if strict else ""),
                  required="Operation(identifier=..., type=...)", what=f"Operation.{nm}(x) == Operation(identifier=x, type=...) is False: operations made with the constructor never "
                  "match the generator's allowed operations", detail="factory-class")
    rep.floor("Operation factory classmethods", n, 3)


def q11(model: Model, rep: Report):
    """Membership in a parity group is decided on the identifier OBJECTS (whose equality C19 pins down), over the group's own qubits and edges."""
    rep.rule("C16.Q11", "ParityGroup.contains(element) == element is one of the group's data qubits, its ancilla, or one of its edges -- decided with `in` on the "
                        "identifiers themselves (qubit equality = name equality, edge equality = unordered pair), never on derived strings such as `.id`, whose "
                        "value for an edge depends on the order of its two qubits")
    K = model.cls("ParityGroup")
    f = K.resolve("contains")
    if f is None:
        raise AnalysisError("ParityGroup.contains vanished")
    ev = Evaluator(model)
    try:
        v = bool_value(ev.eval_function(f, self_cls=K))
    except Unsupported as e:
        raise AnalysisError(f"ParityGroup.contains outside the supported fragment: {e}")
    el = sym([p for p in f.param_names if p != f.self_name][0])
    s = sym(f.self_name)
    ats = atoms_of(v)
    # the stored members: fields of the class, and the accessors over them
    def source_fields(t) -> set:
        out = set()
        for y in subterms(t, lambda y: y[0] == "attr" and y[1] == s):
            name = y[2]
            g = K.resolve(name)
            if g is not None and g.kind == "property":
                try:
                    gv = Evaluator(model, inline_methods=False).value_of(g, self_cls=K)
                    out |= source_fields(gv) if gv is not None else {name}
                except Unsupported:
                    out.add(name)
            else:
                out.add(name)
        return out
    bad = [a for a in ats if not (a[0] == "in" and a[1] == el)]
    flds = K.all_fields()
    covered = set()
    for a in ats:
        if a[0] == "in" and a[1] == el:
            covered |= source_fields(a[2])
    want = {n for n, fi in flds.items() if fi.annotation is not None and ("IQubitID" in ast.unparse(fi.annotation) or "IEdgeID" in ast.unparse(fi.annotation))}
    # the formula must be the plain disjunction of its membership atoms
    from ..sym import t_or
    disj = t_or(*[a for a in ats if a[0] == "in" and a[1] == el]) if ats else FALSE
    same = False
    if not bad and ats:
        import itertools
        same = True
        for vals in itertools.product((TRUE, FALSE), repeat=len(ats)):
            mp = dict(zip(ats, vals))
            if subst(v, mp) != subst(disj, mp):
                same = False
                break
    if bad and not [a for a in bad if subterms(a, lambda y: y[0] == "attr" and y[2] in ("id", "_id", "name")) or subterms(a, lambda y: y[0] == "fstr")]:
        # tests that are neither plain memberships of the element nor look-ups through derived strings (a quantifier over look-ups made by callables, a helper): not read
        raise AnalysisError(f"ParityGroup.contains: membership is decided through {show(bad[0])[:100]} (not read as memberships of the element in the group's containers)")
    ok = not bad and same and want <= covered
    why = (f"tests {show(bad[0])[:100]} instead of the element itself" if bad else "" if same else "is not the disjunction of its membership tests") or \
          (f"does not look at {sorted(want - covered)}" if not want <= covered else "")
    rep.check(ok, "C16.Q11", "ParityGroup.contains", f.loc, found=show(v)[:200], required="element in data qubits + [ancilla] or element in edges",
              what="membership in a parity group " + why + ": an edge written with its two qubits in the other order (or an equal identifier built elsewhere) is not found, "
                   "so get_parity_group / the exactly-once count of ancilla-data edges miss it", detail="membership")


def q10(model: Model, rep: Report):
    """The parking report of a step asks get_requires_parking about the WHOLE step."""
    rep.rule("C16.Q10", "OperationSequence.get_required_parkings: for every step, get_requires_parking is asked with the identifiers of ALL gates of that step (the guard "
                        "'takes part in no active gate' ranges over the step, not over one gate at a time) and for qubits of the device listing")
    from .common import devar
    K = model.cls("OperationSequence")
    f = K.resolve("get_required_parkings")
    if f is None:
        raise AnalysisError("OperationSequence.get_required_parkings vanished")
    pe = PathEnumerator(Evaluator(model, inline_methods=False))
    pe.own_class_helpers = True
    ps = pe.function_paths(f, self_cls=K)
    s = sym(f.self_name)
    calls = []   # call terms, wherever the question is asked (statement loops, or the value when the scan is written as comprehensions)

    domains: Dict[str, Term] = {}     # what the elements of a comprehension range over, by the label its bound elements carry

    def note_domains(t):
        for c_ in subterms(t, lambda y: y[0] == "comp"):
            for dom_, _c in c_[3]:
                domains.setdefault(show(dom_), dom_)

    def walk(p):
        for e in p.events:
            if e.term is not None and e.kind in ("assign", "effect", "branch"):
                calls.extend(find_calls(e.term, "get_requires_parking"))
                note_domains(e.term)
            if e.kind == "loop" and e.term is not None:
                for bp in e.extra["paths"]:
                    walk(bp)
        calls.extend(find_calls(p.cond, "get_requires_parking"))
        if p.value is not None:
            calls.extend(find_calls(p.value, "get_requires_parking"))
            note_domains(p.value)
    for p in ps:
        walk(p)

    def free_bounds(t):
        """bound elements ``t`` mentions that are not introduced by a comprehension inside ``t`` itself"""
        inner_doms = set()
        for c in subterms(t, lambda y: y[0] == "comp"):
            for dom, _conds in c[3]:
                inner_doms.add(show(dom))
        return [b for b in subterms(t, lambda y: y[0] == "bound") if b[3] not in inner_doms]
    seen = set()
    n = 0
    for c in calls:
        a, kw = call_args(c)
        edge = dict(kw).get("edge_ids", a[1] if len(a) > 1 else None)
        if edge is None or repr(edge) in seen:
            continue
        seen.add(repr(edge))
        n += 1
        ed = devar(edge)
        for _ in range(3):
            # an element of ``(f(step) for step in STEPS)`` (every element, nothing filtered) is ``f(step)`` of a step
            if ed[0] == "bound" and ed[3] in domains:
                dom_ = devar(domains[ed[3]])
                if dom_[0] == "comp" and dom_[1] in ("gen", "list") and len(dom_[3]) == 1 and not dom_[3][0][1]:
                    ed = devar(dom_[2])
                    continue
            break
        fb = free_bounds(ed)
        steps = [b for b in fb if b[3].endswith("gate_operations")]
        others = [b for b in fb if b not in steps]
        whole = ed[0] == "comp" and len(ed[3]) == 1 and not ed[3][0][1] and ed[3][0][0] in steps and ed[2][0] == "attr" and ed[2][2] == "identifier" and ed[2][1][0] == "bound"
        if others:
            rep.fail("C16.Q10", "OperationSequence.get_required_parkings[whole step]", f.loc, found=f"edge_ids = {show(ed)[:120]} (built from one element of an inner scan: {others[0][3][:60]})",
                     required="[operation.identifier for operation in <the step>]",
                     what="the question is asked per gate: a qubit that takes part in another gate of the same step is not excluded and is reported as requiring parking "
                          "(parked and gated at once), or demands of different gates are not combined", detail="whole-step")
        elif whole:
            rep.ok("C16.Q10", "OperationSequence.get_required_parkings[whole step]", f.loc, found=f"edge_ids = {show(ed)[:120]}", required="identifiers of all gates of the step")
        else:
            raise AnalysisError(f"get_required_parkings: edge set {show(ed)[:160]} not recognised as the identifiers of the whole step")
    rep.floor("get_requires_parking questions in get_required_parkings", n, 1)


def q1(model: Model, rep: Report):
    rep.rule("C16.Q1", "FrequencyGroupIdentifier: is_equal_to == same group; is_higher_than == strictly higher in LOW < MID < HIGH; is_lower_than == strictly lower; "
                       "exactly one of the three holds for every pair (tabulated over all 9 pairs)")
    F = model.cls("FrequencyGroupIdentifier")
    members = Evaluator(model).enum_members("FrequencyGroup")
    if not members or set(members) != set(ORDER):
        raise AnalysisError(f"FrequencyGroup members changed: {members}")
    forms: Dict[str, Term] = {}
    for name in ("is_equal_to", "is_higher_than", "is_lower_than"):
        f = F.resolve(name)
        if f is None:
            raise AnalysisError(f"FrequencyGroupIdentifier.{name} not found")
        ev = Evaluator(model)
        other = sym([p for p in f.param_names if p != f.self_name][0])
        ev.set_type(other, F)
        forms[name] = bool_value(ev.eval_function(f, self_cls=F))
    S, O = ("attr", sym("self"), "_id"), ("attr", sym("other"), "_id")
    want = {"is_equal_to": lambda a, b: a == b, "is_higher_than": lambda a, b: a > b, "is_lower_than": lambda a, b: a < b}
    for name, formula in forms.items():
        f = F.resolve(name)
        bad = []
        for a, b in itertools.product(members, repeat=2):
            v = subst(formula, {S: ("enum", "FrequencyGroup", a), O: ("enum", "FrequencyGroup", b)})
            if v not in (TRUE, FALSE):
                raise AnalysisError(f"{name}: formula does not reduce on ({a}, {b}): {show(v)}")
            if (v == TRUE) != want[name](ORDER[a], ORDER[b]):
                bad.append(f"{a}.{name}({b}) = {v == TRUE}")
        rep.check(not bad, "C16.Q1", f"FrequencyGroupIdentifier.{name}", f.loc, found="; ".join(bad) or "matches the strict order on all 9 pairs", required="LOW < MID < HIGH",
                  what="frequency comparison deviates from the order LOW < MID < HIGH: " + "; ".join(bad), detail=name)


def _qid(t: Term) -> Optional[str]:
    if t[0] == "new" and t[1] == "QubitIDObj":
        v = dict(t[2]).get("_id")
        return v[1] if v is not None and v[0] == "const" else None
    return None


def surface_tables(model: Model):
    """Literal tables of Surface17Layer: qubits (from the feedline lookup), edges, frequency groups, parity groups."""
    L = model.cls("Surface17Layer")
    ev = Evaluator(model)
    fr = Frame(None, L.module, {}, L, 0)
    out = {}
    fl = ev.expr(L.class_attrs["_feedline_qubit_lookup"], fr)
    if fl[0] != "dict":
        raise AnalysisError("Surface17Layer._feedline_qubit_lookup is not a dict literal")
    feed = {}
    for k, v in fl[1]:
        kn = dict(k[2]).get("name") if k[0] == "new" else None
        feed[kn[1] if kn else show(k)] = [_qid(x) for x in v[1]]
    out["feedlines"] = feed
    out["qubits"] = [q for qs in feed.values() for q in qs]
    ed = ev.expr(L.class_attrs["_qubit_edges"], fr)
    edges = []
    if ed[0] != "list" or any(e[0] != "new" for e in ed[1]):
        raise AnalysisError("Surface17Layer._qubit_edges is not read as a list of edge constructions")
    for e in ed[1]:
        d = dict(e[2])
        edges.append((_qid(d.get("qubit_id0")), _qid(d.get("qubit_id1"))))
    out["edges"] = edges
    fg = ev.expr(L.class_attrs["_frequency_group_lookup"], fr)
    groups = {}
    if fg[0] != "dict":
        raise AnalysisError("Surface17Layer._frequency_group_lookup is not read as a dict of constructions")
    for k, v in fg[1]:
        g = dict(v[2]).get("_id") if v[0] == "new" else None
        groups[_qid(k)] = g[2] if g is not None and g[0] == "enum" else None
    out["groups"] = groups
    pgs = []
    for attr in ("_parity_group_x", "_parity_group_z"):
        pg = ev.expr(L.class_attrs[attr], fr)
        if pg[0] != "list" or any(g[0] != "new" for g in pg[1]):
            raise AnalysisError(f"Surface17Layer.{attr} is not read as a list of parity-group constructions")
        for g in pg[1]:
            d = dict(g[2])
            pgs.append((attr[-1], _qid(d.get("_ancilla_qubit")), [_qid(x) for x in d.get("_data_qubits")[1]]))
    out["parity_groups"] = pgs
    out["loc"] = L.loc
    return out


def q2(model: Model, rep: Report):
    rep.rule("C16.Q2", "Surface-17 tables: 17 distinct qubits, each with a frequency group; 24 distinct edges between listed qubits, each joining two DIFFERENT "
                       "frequency groups (the lower-frequency member of a gate is defined)")
    t = surface_tables(model)
    qs, edges, groups = t["qubits"], t["edges"], t["groups"]
    rep.check(len(qs) == 17 and len(set(qs)) == 17 and None not in qs, "C16.Q2", "Surface17Layer[qubits]", t["loc"], found=f"{len(qs)} qubits, {len(set(qs))} distinct", required="17 distinct", what="device qubit list changed", detail="qubits")
    miss = [q for q in qs if groups.get(q) not in ORDER]
    rep.check(not miss and set(groups) == set(qs), "C16.Q2", "Surface17Layer[frequency groups]", t["loc"], found=f"missing: {miss}; extra: {sorted(set(groups) - set(qs))}", required="one group per device qubit",
              what="a qubit has no frequency group (lookups raise) or the table names a non-device qubit", detail="groups")
    rep.check(len(edges) == 24 and len({frozenset(e) for e in edges}) == 24, "C16.Q2", "Surface17Layer[edges]", t["loc"], found=f"{len(edges)} edges, {len({frozenset(e) for e in edges})} distinct", required="24 distinct", what="edge list changed", detail="edges")
    bad = [e for e in edges if e[0] not in qs or e[1] not in qs or e[0] == e[1]]
    same = [e for e in edges if e[0] in groups and e[1] in groups and groups[e[0]] == groups[e[1]]]
    rep.check(not bad, "C16.Q2", "Surface17Layer[edge endpoints]", t["loc"], found=bad or "all endpoints are device qubits", required="edges between distinct device qubits", what="an edge names an unknown qubit", detail="endpoints")
    rep.check(not same, "C16.Q2", "Surface17Layer[edge groups differ]", t["loc"], found=same or "every edge joins different groups", required="different frequency groups on every edge",
              what="an edge joins two qubits of one frequency group: neither is the moving side", detail="same-group-edge")


def q3(model: Model, rep: Report):
    rep.rule("C16.Q3", "on_moving_side(q, edge) == edge.contains(q) and group(q).is_higher_than(group(partner of q on that edge))")
    f = model.function("connectivity_surface_code", "on_moving_side")
    ev = Evaluator(model, inline_methods=False)
    outs = ev.eval_function(f)
    q, e, c = (sym(p) for p in f.param_names[:3])
    contains = ("call", ("attr", e, "contains"), (q,), ())
    alt = ("call", ("attr", e, "contains"), (), (("element", q),))
    fg = lambda x: ("call", ("attr", c, "get_frequency_group_identifier"), (), (("element", x),))
    partner = ("call", ("attr", e, "get_connected_qubit_id"), (), (("element", q),))
    want_true = ("call", ("attr", fg(q), "is_higher_than"), (), (("other", fg(partner)),))
    formula = bool_value(outs)
    ok = False
    for cterm in (contains, alt):
        v_t = subst(formula, {cterm: TRUE})
        v_f = subst(formula, {cterm: FALSE})
        if v_f == FALSE and _norm_calls(v_t) == _norm_calls(want_true):
            ok = True
    rep.check(ok, "C16.Q3", "on_moving_side", f.loc, found=show(formula), required="edge.contains(q) and group(q).is_higher_than(group(edge.get_connected_qubit_id(q)))",
              what="the moving side of a gate is not its higher-frequency member", detail="moving-side")


def _norm_calls(t):
    """Positional vs keyword arguments of calls on untyped receivers: compare by argument values only."""
    if not isinstance(t, tuple) or not t:
        return t
    if t[0] == "call":
        return ("call", _norm_calls(t[1]), tuple(_norm_calls(a) for a in t[2]) + tuple(_norm_calls(v) for _, v in t[3]))
    return tuple(_norm_calls(x) if isinstance(x, tuple) else x for x in t)


class _Out:
    """an outcome of a function read path by path (same fields as the evaluator's outcomes, plus the path)"""

    def __init__(self, p: Path):
        self.cond, self.kind, self.value, self.path = p.cond, p.exit, p.value, p

    def __str__(self):
        return f"{self.kind} {show(self.value) if self.value is not None else ''} if {show(self.cond)}"


def _skeleton(model: Model, f: FunctionInfo):
    """outcomes (guard condition, value) of a requires-parking / requires-idle function; read path by path when it contains loops"""
    ev = Evaluator(model, inline_methods=False)
    try:
        outs = ev.eval_function(f)
        return ev, outs
    except Unsupported:
        pe = PathEnumerator(Evaluator(model, inline_methods=False))
        pe.split_ite = False
        cls = f.cls if f.kind == "method" else None
        return pe.ev, [_Out(p) for p in pe.function_paths(f, self_cls=cls)]


def _rejections(L, outer):
    """Early ``return <v>`` exits of a (nested) scan: [(domains outermost first, bound elements, condition, value)].  ``if any(c(b) for b in D):
    return v`` inside a loop is the inner scan loop ``for b in D: if c(b): return v``."""
    out = []
    elem = ("bound", "for", L.node.lineno, show(L.term))
    for bp in L.extra["paths"]:
        if bp.exit == "return" and not any(e.kind == "loopexit" for e in bp.events):
            c = bp.cond
            if c[0] == "quant" and c[1] == "any" and c[2][0] == "comp" and len(c[2][3]) == 1 and not c[2][3][0][1]:
                dom2 = c[2][3][0][0]
                b2 = subterms(c[2][2], lambda y: y[0] == "bound" and isinstance(y[1], int) and y[3] == show(dom2))
                out.append((outer + [L.term, dom2], [elem, b2[0] if len(b2) == 1 else None], c[2][2], bp.value))
            else:
                out.append((outer + [L.term], [elem], c, bp.value))
        for e in bp.events:
            if e.kind == "loop" and e.term is not None:
                for doms, bounds, c, v in _rejections(e, outer + [L.term]):
                    out.append((doms, [elem] + bounds, c, v))
    # one entry per distinct test (several body paths may reach the same inner loop)
    uniq = []
    for r in out:
        if r not in uniq:
            uniq.append(r)
    return uniq


def _mixed_polarity_scan(model: Model, rep: Report, fp: FunctionInfo) -> bool:
    """One scan over the active gates that both REJECTS (``return False`` when the gate contains the qubit) and ACCEPTS (``return True`` when a gate demands
    parking) answers with whichever gate comes first in the list: a gate listed before the qubit's own gate can demand parking of a participant.  The
    participant guard must be complete over ALL gates before any gate may accept -- a per-gate test cannot imply 'no other gate contains the qubit'."""
    pe = PathEnumerator(Evaluator(model, inline_methods=False))
    pe.split_ite = False
    try:
        ps = pe.function_paths(fp)
    except Unsupported:
        return False
    el, eds = (sym(p) for p in fp.param_names[:2])
    for p in ps:
        for e in p.events:
            if e.kind != "loop" or e.term != eds:
                continue
            rej = _rejections(e, [])
            elem = ("bound", "for", e.node.lineno, show(e.term))
            neg = [r for r in rej if r[3] == FALSE and r[0] == [eds] and subterms(r[2], lambda y: y[0] == "call" and isinstance(y[1], tuple) and y[1][0] == "attr" and y[1][2] == "contains" and y[1][1] == elem)]
            pos = [r for r in rej if r[3] == TRUE and r[0] == [eds]]
            if neg and pos:
                rep.fail("C16.Q4", "get_requires_parking[guards]", fp.loc, found=f"one scan over {show(eds)}: return False if {show(neg[0][2])[:80]}; return True if {show(pos[0][2])[:120]}",
                         required="np.any([element in get_neighbors(e) for e in edge_ids]) and not np.any([e.contains(element) for e in edge_ids]) -- complete before any gate can demand parking",
                         what="the spectator / participant guards do not range over all active gates: the answer depends on the order of the gates (a gate listed before the "
                              "qubit's own gate can demand parking of a participant)", detail="guards")
                return True
            if pos and not neg:
                # a gate may accept inside the scan: the participant guard must have been completed over ALL gates before the scan starts
                guards = [n for n in ast.walk(fp.node) if isinstance(n, ast.Call) and isinstance(n.func, ast.Attribute) and n.func.attr == "contains"
                          and n.lineno < e.node.lineno]
                complete = [g for g in subterms(p.cond, lambda y: y[0] == "quant" and y[2][0] == "comp" and len(y[2][3]) == 1 and y[2][3][0][0] == eds
                                                and subterms(y[2][2], lambda z: z[0] == "call" and isinstance(z[1], tuple) and z[1][0] == "attr" and z[1][2] == "contains"))]
                if not (guards and complete):
                    rep.fail("C16.Q4", "get_requires_parking[guards]", fp.loc, found=f"one scan over {show(eds)}: return True if {show(pos[0][2])[:160]}; no test over all of {show(eds)} that none of them contains the qubit precedes the scan",
                             required="not np.any([e.contains(element) for e in edge_ids]) -- complete before any gate can demand parking",
                             what="the participant guard is applied per gate: a qubit that takes part in one gate of the layer but spectates another one is reported as requiring "
                                  "parking (parked and gated in the same layer)", detail="guards")
                    return True
    return False


def q4_q5(model: Model, rep: Report):
    rep.rule("C16.Q4", "get_requires_parking(element, edge_ids): False unless element neighbours some gate (over ALL edge_ids) and is part of none of them; then "
                       "any(neighbour_group.is_higher_than(own group) and on_moving_side(neighbour, its gate)) over all involved neighbours")
    rep.rule("C16.Q5", "OperationConstraint.get_requires_idle is the mirror of get_requires_parking: same spectator test and lists, with is_lower_than and "
                       "not on_moving_side in the final quantifier")
    fp = model.function("connectivity_surface_code", "get_requires_parking")
    fi = model.cls("OperationConstraint").resolve("get_requires_idle")
    if _mixed_polarity_scan(model, rep, fp):
        return
    evp, op_ = _skeleton(model, fp)
    evi, oi_ = _skeleton(model, fi)
    el, eds, con = (sym(p) for p in fp.param_names[:3])
    spect = None
    # parking: three outcomes
    finals_p = [o for o in op_ if o.kind == "return" and o.value not in (TRUE, FALSE)]
    finals_i = [o for o in oi_ if o.kind == "return" and o.value not in (TRUE, FALSE)]
    if len(finals_p) != 1 or len(finals_i) != 1:
        raise AnalysisError("requires-parking / requires-idle: final quantifier not found")
    fpv, fiv = finals_p[0], finals_i[0]
    guards_p = atoms_of(fpv.cond)
    guards_i = atoms_of(fiv.cond)

    def is_np_any_over_edges(a: Term, elt_pred) -> bool:
        if a[0] == "quant" and a[1] == "any" and a[2][0] == "comp":
            comp = a[2]          # the builtin any(..) over the same list
            return len(comp[3]) == 1 and not comp[3][0][1] and comp[3][0][0] == eds and elt_pred(comp[2])
        if not (a[0] == "call" and a[1] == ("attr", ("global", "np"), "any") and len(a[2]) == 1 and a[2][0][0] == "comp"):
            return False
        comp = a[2][0]
        return len(comp[3]) == 1 and not comp[3][0][1] and comp[3][0][0] == eds and elt_pred(comp[2])

    def spect_elt(x):
        return x[0] == "in" and x[1] == el and _norm_calls(x[2])[0] == "call" and "get_neighbors" in show(x[2]) and subterms(x[2], lambda y: y[0] == "bound")

    def incl_elt(x):
        return x[0] == "call" and isinstance(x[1], tuple) and x[1][0] == "attr" and x[1][2] == "contains" and x[1][1][0] == "bound" and (list(x[2]) + [v for _, v in x[3]]) == [el]
    sp = [a for a in guards_p if is_np_any_over_edges(a, spect_elt)]
    inc = [a for a in guards_p if is_np_any_over_edges(a, incl_elt)]
    ok_guard = len(sp) == 1 and len(inc) == 1 and len(guards_p) == 2 and fpv.cond == t_and(sp[0], t_not(inc[0]))
    rep.check(ok_guard, "C16.Q4", "get_requires_parking[guards]", fp.loc, found=show(fpv.cond), required="np.any([element in get_neighbors(e) for e in edge_ids]) and not np.any([e.contains(element) for e in edge_ids])",
              what="the spectator / participant guards do not range over all active gates", detail="guards")
    # every other outcome is False
    others = [o for o in op_ if o is not fpv]
    rep.check(all(o.kind == "return" and o.value == FALSE for o in others), "C16.Q4", "get_requires_parking[default-false]", fp.loc, found=[str(o) for o in others], required="False outside the spectator case",
              what="parking is demanded from non-spectators or participants", detail="default")
    # final quantifier
    def final_ok(v: Term, cmp_name: str, negate_moving: bool, own_fg_elem: Term, con_sym: Term, eds_sym: Term, path) -> Tuple[bool, str]:
        if not (v[0] == "quant" and v[1] == "any" and v[2][0] == "comp"):
            return False, f"not an any(...): {show(v)}"
        comp = v[2]
        if len(comp[3]) != 1 or comp[3][0][1]:
            return False, "filtered or multi-generator quantifier"
        it = comp[3][0][0]
        try:
            dom, conds, pred = read_domain(model, it, comp[2], path)
        except Misaligned as e:
            return False, str(e)
        want_dom = ("call", ("attr", con_sym, "get_neighbors"), (), (("qubit", own_fg_elem),))
        if _norm_calls(dom) != _norm_calls(want_dom) and _norm_calls(dom) != _norm_calls(("call", ("attr", con_sym, "get_neighbors"), (), (("order", lin({}, Fraction(1))), ("qubit", own_fg_elem)))):
            return False, f"candidates are {show(dom)} instead of the direct neighbours of the element"
        if list(conds) != [involved(eds_sym, N)]:
            return False, "candidates are not exactly the neighbours that are part of one of the given gates: " + (" and ".join(show(c)[:80] for c in conds) or "no test")
        parts = list(pred[1]) if pred[0] == "and" else [pred]
        if len(parts) != 2:
            return False, f"quantified predicate is {show(pred)[:160]}"
        c1 = [p for p in parts if (p[0] == "call" and isinstance(p[1], tuple) and p[1][0] == "attr" and p[1][2] == cmp_name)]
        mv = [p for p in parts if "on_moving_side" in show(p)]
        if len(c1) != 1 or len(mv) != 1:
            return False, f"quantified predicate is {show(pred)[:160]}"
        neg = mv[0][0] == "not"
        if neg != negate_moving:
            return False, "moving-side test has the wrong polarity"

        def group_of(q):
            return ("call", ("attr", con_sym, "get_frequency_group_identifier"), (), (("element", q),))
        own = (list(c1[0][2]) + [x for _, x in c1[0][3]])
        if len(own) != 1 or _norm_calls(own[0]) != _norm_calls(group_of(own_fg_elem)):
            return False, f"compares against {show(own[0])[:80] if own else None} instead of the element's own group"
        if _norm_calls(c1[0][1][1]) != _norm_calls(group_of(N)):
            return False, f"the comparison is made for {show(c1[0][1][1])[:80]}, not for the neighbour's group"
        m = mv[0][1] if neg else mv[0]
        if not (m[0] == "call" and m[1] == ("fn", "connectivity_surface_code.on_moving_side")):
            return False, f"moving-side test is {show(m)[:100]}"
        mk = dict(m[3])
        if m[2] or mk.get("qubit_id") != N or mk.get("connectivity") != con_sym:
            return False, "on_moving_side is not asked for the neighbour"
        if mk.get("edge_id") != first_edge(eds_sym, N):
            if mk.get("edge_id") is not None and subterms(mk.get("edge_id"), lambda y: y[0] == "comp" and isinstance(y[2], tuple) and y[2] and y[2][0] in ("tuple", "new")):
                # a look-up through tables that were not reduced to the known ones (pairs / records built on the spot): not read -- no verdict
                raise AnalysisError(f"requires-parking / requires-idle: the gate handed to on_moving_side is looked up through tables that are not read ({show(mk.get('edge_id'))[:100]})")
            return False, f"on_moving_side is asked about {show(mk.get('edge_id'))[:120]}, not about the gate the neighbour is part of"
        return True, ""
    ok, why = final_ok(fpv.value, "is_higher_than", False, el, con, eds, getattr(fpv, "path", None))
    rep.check(ok, "C16.Q4", "get_requires_parking[quantifier]", fp.loc, found=why or "any(neighbour higher and on the moving side)", required="any(neighbour_group.is_higher_than(own_group) and on_moving_side(neighbour, its gate))",
              what="parking requirement is not 'neighbours a moving, higher-frequency member of an active gate': " + why, detail="quantifier")
    eli, edsi, coni = (sym(p) for p in fi.param_names[-3:])
    ok, why = final_ok(fiv.value, "is_lower_than", True, eli, coni, edsi, getattr(fiv, "path", None))
    rep.check(ok, "C16.Q5", "OperationConstraint.get_requires_idle[quantifier]", fi.loc, found=why or "any(neighbour lower and not on the moving side)", required="any(neighbour_group.is_lower_than(own_group) and not on_moving_side(neighbour, its gate))",
              what="idle requirement is not the mirror of the parking requirement: " + why, detail="quantifier")
    # mirror: both siblings read to the same candidates / tests, and their predicates coincide after swapping the two primitives
    ren = {eli: el, edsi: eds, coni: con}
    try:
        rd_p = read_domain(model, fpv.value[2][3][0][0], fpv.value[2][2], getattr(fpv, "path", None))
        rd_i = read_domain(model, fiv.value[2][3][0][0], fiv.value[2][2], getattr(fiv, "path", None))
        same = _strip_lines(_norm_calls(subst(rd_i[0], ren))) == _strip_lines(_norm_calls(rd_p[0])) and [subst(c, ren) for c in rd_i[1]] == list(rd_p[1]) \
            and _strip_lines(_norm_calls(_mirror(subst(rd_i[2], ren)))) == _strip_lines(_norm_calls(rd_p[2]))
    except (Misaligned, IndexError, TypeError):
        same = False
    rep.check(same, "C16.Q5", "get_requires_idle ~ get_requires_parking[mirror]", fi.loc, found="identical after mirroring" if same else "differs after mirroring", required="the same candidates, tests and gate pairing",
              what="the two sibling predicates no longer select their neighbour / gate pairs the same way (one of them is wrong)", detail="mirror")
    sp_i = [a for a in guards_i if subst(a, ren) == sp[0]] if sp else []
    rep.check(len(sp_i) == 1 and len(guards_i) == 1, "C16.Q5", "OperationConstraint.get_requires_idle[guards]", fi.loc, found=show(fiv.cond), required="the same spectator test as get_requires_parking",
              what="idle requirement uses a different spectator test", detail="guards")


def _mirror(t):
    if not isinstance(t, tuple) or not t:
        return t
    if t[0] == "not" and "on_moving_side" in show(t[1]):
        return _mirror(t[1])
    if t[0] == "attr" and t[2] == "is_lower_than":
        return ("attr", _mirror(t[1]), "is_higher_than")
    if t[0] == "and":
        return t_and(*[_mirror(x) for x in t[1]])
    return tuple(_mirror(x) if isinstance(x, tuple) else x for x in t)


def _strip_lines(t):
    """Drop source positions carried by bound / var terms so that two functions can be compared structurally."""
    if not isinstance(t, tuple) or not t:
        return t
    if t[0] == "bound":
        return ("bound",)
    if t[0] in ("loopvar", "after") and len(t) == 3:
        return (t[0], t[1])
    if t[0] == "var":
        return ("var", t[1], _strip_lines(t[3]))
    if t[0] == "and":
        return ("and", tuple(sorted((_strip_lines(x) for x in t[1]), key=repr)))
    return tuple(_strip_lines(x) if isinstance(x, tuple) else x for x in t)


# ---------------------------------------------------------------------------------------------
def q6(model: Model, rep: Report):
    rep.rule("C16.Q6", "generate_unique_subgroup_combinations: the recursion records a grouping only when NO element is left, tries every combination of the remaining "
                       "elements and removes exactly the chosen ones; construct_allowed_gate_sequences keeps a grouping iff every step passed get_mutually_allowed "
                       "on the gates of that step; get_mutually_allowed tests every ordered pair of the step")
    m = model.module("combinatorics")
    outer = m.functions.get("generate_unique_subgroup_combinations")
    if outer is None:
        raise AnalysisError("generate_unique_subgroup_combinations not found")
    inner_nodes = [n for n in outer.node.body if isinstance(n, ast.FunctionDef)]
    if len(inner_nodes) != 1:
        raise AnalysisError("recursive helper of generate_unique_subgroup_combinations not found")
    helper = FunctionInfo(name=inner_nodes[0].name, node=inner_nodes[0], module=m)
    ev = Evaluator(model, inline_methods=False)
    ps = PathEnumerator(ev).function_paths(helper)
    remaining = sym(helper.param_names[0])
    current = sym(helper.param_names[1])
    size = ("global", outer.param_names[1]) if len(outer.param_names) > 1 else None
    base = [p for p in ps if p.exit == "return" and not any(e.kind == "loop" for e in p.events)]
    rec = [p for p in ps if any(e.kind == "loop" for e in p.events)]
    okb = len(base) == 1 and base[0].cond == t_not(remaining)
    rep.check(okb, "C16.Q6", "generate_unique_subgroup_combinations[base-case]", helper.loc, found=[show(p.cond) for p in base], required="record only when no element remains",
              what="a grouping is recorded while requested gates are still unassigned (they are silently dropped)", detail="base")
    okr = False
    why = "recursion not recognised"
    for p in rec:
        lp = loop_of(p)
        it = lp.term
        if not (it[0] == "call" and it[1] in ("combinations",) and len(it[2]) == 2 and it[2][0] == remaining):
            why = f"iterates {show(it)}"
            continue
        elem = ("bound", "for", lp.node.lineno, show(lp.term))
        for bp in lp.extra["paths"]:
            inner = [e for e in bp.events if e.kind == "loop"]
            calls = [c for e in bp.events if e.kind == "effect" for c in find_calls(e.term, helper.name)]
            left = None
            for e in bp.events:
                if e.kind == "assign" and e.term is not None and e.term == ("call", ("attr", remaining, "copy"), (), ()):
                    left = e.extra
            removes = []
            if len(inner) == 1 and inner[0].term == elem:
                ie = ("bound", "for", inner[0].node.lineno, show(inner[0].term))
                for ibp in inner[0].extra["paths"]:
                    removes += [c for e in ibp.events if e.kind == "effect" for c in find_calls(e.term, "remove") if c[2] == (ie,)]
            if len(calls) == 1 and left is not None and len(removes) == 1 and not atoms_of(bp.cond):
                args = list(calls[0][2])
                okr = len(args) >= 2 and args[0][0] in ("loopvar", "var", "after") and args[0][1] == left and "list" in show(args[1]) or elem in subterms(args[1], lambda y: y == elem)
                why = "" if okr else "recursive call does not pass (elements left, groups + [combination])"
            else:
                why = f"{len(calls)} recursive calls, {len(removes)} removals"
    rep.check(okr, "C16.Q6", "generate_unique_subgroup_combinations[recursion]", helper.loc, found=why or "for each combination: remove exactly its elements, recurse", required="every combination of the remaining elements; exactly its elements removed",
              what="the grouping enumeration does not partition the requested gates: " + why, detail="recursion")
    # construct_allowed_gate_sequences
    G = model.cls("GateSequenceGenerator")
    f = G.resolve("construct_allowed_gate_sequences")
    ev = Evaluator(model, inline_methods=False)
    ps = PathEnumerator(ev).function_paths(f, self_cls=G)
    s = sym(f.self_name)
    n = 0
    from ..listflow import as_single_comp
    for p in [q for q in ps if q.exit == "return"]:
        n += 1
        v0 = p.value
        kept = dict(v0[2]).get("index_pointers") if v0 is not None and v0[0] == "new" else None
        comp = as_single_comp(p, kept) if kept is not None else None
        while comp is not None and comp[0] == "var" and comp[3][0] == "comp":
            comp = comp[3]
        kv = kept
        while kv is not None and kv[0] == "var" and len(kv) == 4:
            kv = kv[3]
        if kv is not None and kv[0] == "list" and kv[1] and p.cond != TRUE and not find_calls(("tuple", tuple(e.term for e in p.events if e.term is not None) + (p.cond,)), "get_mutually_allowed"):
            # a way out that emits a grouping written down by hand, on a path that never asks get_mutually_allowed: the step is emitted unchecked
            rep.fail("C16.Q6", "GateSequenceGenerator.construct_allowed_gate_sequences[unchecked way out]", f.loc, found=f"returns {show(kv)[:80]} when [{show(p.cond)[:80]}]",
                     required="every emitted step passed get_mutually_allowed", what=f"when [{show(p.cond)[:80]}] a grouping is emitted without the acceptance test: steps whose gates "
                     "share a qubit or collide in frequency are handed out", detail="unchecked-exit")
            continue
        if comp is None or comp[0] != "comp" or len(comp[3]) != 1:
            raise AnalysisError(f"construct_allowed_gate_sequences: the kept groupings are not read as a filtered list of all groupings ({show(kept)[:120] if kept else None})")
        dom, conds = comp[3][0]
        src_ok = "generate_unique_subgroup_combinations" in show(dom) and not subterms(dom, lambda y: y[0] == "slice")
        rep.check(src_ok, "C16.Q6", "construct_allowed_gate_sequences[groupings]", f.loc, found=show(dom), required="all groupings of the edge indices", what="not every grouping is considered", detail="groupings")
        bs = subterms(comp, lambda y: y[0] == "bound" and y[3] == show(dom))
        bad = []
        seq = bs[0] if len(bs) == 1 else None
        if seq is None or comp[2] != seq:
            bad.append("what is kept is not the grouping itself")
        if not conds:
            bad.append("a grouping is kept unconditionally")
        acc = t_and(*conds) if conds else TRUE
        # an acceptance method of the generator called with the grouping: read its body
        if acc[0] == "call" and isinstance(acc[1], tuple) and acc[1][0] == "attr" and acc[1][1] == s and seq is not None and (list(acc[2]) + [x for _, x in acc[3]]) == [seq]:
            h = G.resolve(acc[1][2])
            if h is not None:
                try:
                    hv = Evaluator(model, inline_methods=False).value_of(h, self_cls=G)
                    hp = [pn for pn in h.param_names if pn != h.self_name]
                    if len(hp) == 1:
                        # read the method on its own parameter (bound names inside it refer to that parameter)
                        acc, seq = hv, sym(hp[0])
                except Unsupported as e_:
                    raise AnalysisError(f"construct_allowed_gate_sequences: a grouping is kept when {G.name}.{acc[1][2]}(grouping) says so, and that method is not read as a value ({e_}); nothing decided")
        if not (acc[0] == "quant" and acc[1] == "all" and acc[2][0] == "comp" and len(acc[2][3]) == 1 and not acc[2][3][0][1]):
            bad.append(f"a grouping is kept under [{show(acc)[:120]}], not 'every step is mutually allowed'")
        else:
            steps_dom = acc[2][3][0][0]
            if steps_dom != seq:
                bad.append("steps of a grouping are not all checked")
            sb = subterms(acc[2][2], lambda y: y[0] == "bound" and y[3] == show(steps_dom))
            step = sb[0] if len(sb) == 1 else None
            pred = acc[2][2]
            while pred[0] == "not" and pred[1][0] == "not":
                pred = pred[1][1]
            mas = find_calls(pred, "get_mutually_allowed")
            if len(mas) != 1 or pred != mas[0]:
                bad.append("a step is not tested with get_mutually_allowed")
            elif step is None:
                bad.append("get_mutually_allowed does not receive all gates of the step")
            else:
                arg = dict(mas[0][3]).get("operations", mas[0][2][0] if mas[0][2] else NONE)
                src = arg
                while src[0] == "var":
                    src = src[3]
                if subterms(src, lambda y: y[0] == "slice") or not subterms(src, lambda y: y == step):
                    bad.append("get_mutually_allowed does not receive all gates of the step")
        rep.check(not bad, "C16.Q6", "construct_allowed_gate_sequences[keep-iff-all-steps-allowed]", f.loc, found="; ".join(sorted(set(bad))) or "kept iff no step failed", required="every step tested on all its gates; kept iff none failed",
                  what="emitted sequences may contain steps that were not accepted: " + "; ".join(sorted(set(bad))), detail="keep")
        v = p.value
        ok = v is not None and v[0] == "new" and v[1] == "GateSequenceIdentifier" and dict(v[2]).get("edge_ids") == ("attr", s, "included_edge_ids")
        rep.check(ok, "C16.Q6", "construct_allowed_gate_sequences[result]", f.loc, found=show(v) if v else None, required="GateSequenceIdentifier(index_pointers=<kept groupings>, edge_ids=self.included_edge_ids)", what="result does not refer to the requested gates", detail="result")
    rep.floor("return paths of construct_allowed_gate_sequences", n, 1)
    # get_mutually_allowed: every ordered pair
    g = G.resolve("get_mutually_allowed")
    ev = Evaluator(model, inline_methods=False)
    ps = PathEnumerator(ev).function_paths(g, self_cls=G)
    ops, con = sym(g.param_names[-2]), sym(g.param_names[-1])
    fall = [p for p in ps if p.exit == "return" and not any(e.kind == "loopexit" for e in p.events)]
    ok = len(fall) == 1 and fall[0].value == TRUE
    why = ""
    rets = [p for p in ps if p.exit == "return"]
    if len(rets) == 1 and rets[0].value is not None and rets[0].value[0] == "quant" and not any(e.kind == "loop" for e in rets[0].events):
        # the same test written as one quantifier over the pairs
        from ..extreme import fuse_comprehensions
        from .common import devar
        qv = rets[0].value
        comp = devar(fuse_comprehensions(devar(qv[2])))
        ok = True
        if qv[1] != "all":
            ok, why = False, "the step is accepted when SOME pair is allowed"
        elif comp[0] != "comp" or len(comp[3]) != 2 or comp[3][0][1] or comp[3][1][1]:
            ok, why = False, f"not every ordered pair is tested ({show(comp)[:120]})"
        elif comp[3][0][0] != ops or comp[3][1][0] != ops:
            ok, why = False, f"pairs range over {show(comp[3][0][0])} x {show(comp[3][1][0])} instead of all operations of the step twice"
        else:
            c = comp[2]
            bs = subterms(c, lambda y: y[0] == "bound")
            allowed = c[2] if c[0] == "in" and c[1][0] == "bound" else None
            tgts = [b for b in bs if c[0] == "in" and b != c[1]]
            if allowed is None or "get_allowed_operations" not in show(allowed) or len(tgts) != 1 or not subterms(allowed, lambda y: y == tgts[0]):
                ok, why = False, f"pair test is {show(c)[:160]}"
    elif ok:
        L = loop_of(fall[0])
        rej = _rejections(L, []) if L is not None else []
        if L is None or len(rej) != 1:
            ok = False
            why = f"{len(rej)} rejecting tests" if L is not None else "no scan over the operations"
        else:
            doms, bounds, c, val = rej[0]
            if val != FALSE:
                ok, why = False, "a failing pair does not reject the step"
            elif len(doms) != 2 or doms[0] != ops:
                ok, why = False, f"outer loop over {show(doms[0]) if doms else None}"
            elif doms[1] != ops:
                ok, why = False, f"inner loop over {show(doms[1])} instead of all operations of the step"
            else:
                tgt, sim = bounds
                allowed = None
                if c[0] == "not" and c[1][0] == "in" and c[1][1] == sim:
                    allowed = c[1][2]
                if allowed is None or "get_allowed_operations" not in show(allowed) or not subterms(allowed, lambda y: y == tgt):
                    ok = False
                    why = f"pair test is {show(c)}"
    rep.check(ok, "C16.Q6", "GateSequenceGenerator.get_mutually_allowed", g.loc, found=why or "every ordered pair tested; True only when none fails", required="for a in ops: for b in ops: b must be allowed by a's constraints",
              what="a step is accepted without testing all ordered pairs of its gates: " + why, detail="all-pairs")


# ---------------------------------------------------------------------------------------------
def q7(model: Model, rep: Report):
    rep.rule("C16.Q7", "OperationConstraint.get_forbidden_operations(operation, qubit): a qubit OF the operation may do nothing else (every other possible operation is "
                       "forbidden); a qubit that is not a direct neighbour is unconstrained; a neighbour is forbidden every gate that intersects the operation, plus -- when it "
                       "must park (get_requires_parking on the operation's own edge) -- idling and every remaining gate in which it would not move, plus -- when it must stay "
                       "idle (get_requires_idle) -- parking and every remaining gate in which it would move.  get_allowed_operations == possible minus forbidden")
    from ..listflow import contents, resolve_lists
    from .common import devar
    C = model.cls("OperationConstraint")
    f = C.resolve("get_forbidden_operations")
    ev = Evaluator(model, inline_methods=False)
    ps = [p for p in PathEnumerator(ev).function_paths(f, self_cls=C) if p.exit == "return"]
    names = [n for n in f.param_names if n != f.self_name]
    op, q, con = (sym(n) for n in names[:3])
    ident = ("attr", op, "identifier")
    construct = "OperationConstraint.get_forbidden_operations"
    has = ("call", ("attr", op, "contains"), (), (("element", q),))
    is_edge = ("isinstance", ident, "IEdgeID")

    def norm(t):
        return _strip_lines(devar(t))

    def gate(e):
        return ("call", ("fn", "Operation.type_gate"), (), (("edge_id", e),))

    def comp_over(dom, cond_of):
        b = ("bound", 0, 0, show(dom))
        return ("comp", "list", gate(b), ((dom, (cond_of(b),)),))
    edges_q = ("call", ("attr", con, "get_edges"), (), (("qubit", q),))
    n_case = {"member": 0, "far": 0, "neighbour": 0}
    bad: List[str] = []
    for p in ps:
        c = p.cond
        if subst(c, {has: FALSE}) == FALSE:
            n_case["member"] += 1
            v = devar(p.value)
            ok = v[0] == "comp" and len(v[3]) == 1 and "get_possible_operations" in show(v[3][0][0]) and v[2][0] == "bound" and len(v[3][0][1]) == 1
            if ok:
                cnd = v[3][0][1][0]
                ok = cnd in (t_not(t_cmp("==", v[2], op)), t_cmp("!=", v[2], op)) and dict(v[3][0][0][3]).get("qubit_id") == q
            if not ok:
                bad.append(f"a member qubit is forbidden {show(p.value)[:100]} instead of every other possible operation")
            continue
        val = p.value
        if val is not None and devar(val) == ("list", ()) and val[0] != "var":
            n_case["far"] += 1
            nb = [a for a in atoms_of(c) if a[0] == "in" and a[1] == q and "get_neighbors" in show(a[2])]
            if len(nb) != 1 or subst(c, {nb[0]: TRUE}) != FALSE or not subterms(nb[0][2], lambda y: y == ident) or "order" in dict(nb[0][2][3]) and number(dict(nb[0][2][3])["order"]) != 1:
                bad.append(f"no constraint under [{show(c)[:120]}] (expected: only when the qubit is not a direct neighbour of the operation)")
            continue
        n_case["neighbour"] += 1
        segs = contents(p, val) if val is not None and val[0] == "var" else None
        if segs is None:
            raise AnalysisError(f"{construct}: the forbidden list of a neighbour is not read as appended groups ({show(val)[:100] if val else None})")
        park_atom = [a for a in atoms_of(c) if a[0] == "call" and a[1] == ("fn", "connectivity_surface_code.get_requires_parking")]
        idle_atom = [a for a in atoms_of(c) if a[0] == "call" and isinstance(a[1], tuple) and a[1][-1:] == ("get_requires_idle",) or (a[0] == "call" and "get_requires_idle" in show(a[1]))]
        if len(park_atom) != 1 or len(idle_atom) != 1:
            bad.append("the neighbour case is not decided by get_requires_parking and get_requires_idle")
            continue
        must_park = subst(c, {park_atom[0]: FALSE}) == FALSE
        must_idle = subst(c, {idle_atom[0]: FALSE}) == FALSE
        edge_case = subst(c, {is_edge: FALSE}) == FALSE
        want_edges = ("list", (ident,)) if edge_case else ("list", ())
        for a_, nm in ((park_atom[0], "get_requires_parking"), (idle_atom[0], "get_requires_idle")):
            kw = dict(a_[3])
            vals = list(a_[2]) + list(kw.values())
            if norm(kw.get("edge_ids", vals[1] if len(vals) > 1 else NONE)) != want_edges or q not in vals or con not in vals:
                bad.append(f"{nm} is not asked for this qubit on the operation's own edge")
        # every group as (what is forbidden, over which edges, under which tests); tests classified, spelling-independent
        from ..extreme import fuse_comprehensions

        def classify(cnd, b):
            neg = False
            while cnd[0] == "not":
                neg, cnd = not neg, cnd[1]
            if cnd[0] == "call" and "intersect" in show(cnd[1]) and subterms(cnd, lambda y: y == ident) and subterms(cnd, lambda y: y == b):
                return ("not " if neg else "") + "intersects"
            if cnd[0] == "call" and "on_moving_side" in show(cnd[1]) and set(list(cnd[2]) + [x for _, x in cnd[3]]) == {q, b, con}:
                return ("not " if neg else "") + "moving"
            if cnd[0] == "in" and cnd[1] == b:
                # membership of the scanned edge in a filtered list of the same edges is that filter
                inner = devar(fuse_comprehensions(resolve_lists(p, cnd[2])))
                if inner[0] == "comp" and len(inner[3]) == 1 and norm(inner[3][0][0]) == norm(edges_q) and inner[2][0] == "bound":
                    sub = sorted(classify(subst(x, {inner[2]: b}), b) for x in inner[3][0][1])
                    if len(sub) == 1:
                        return (sub[0][4:] if sub[0].startswith("not ") else "not " + sub[0]) if neg else sub[0]
            return "?" + show(cnd)[:60]

        def signature(sg):
            sg = devar(fuse_comprehensions(resolve_lists(p, sg)))
            if sg[0] == "list":
                return [("item", _norm_calls(norm(x))) for x in sg[1]]
            if sg[0] == "comp" and len(sg[3]) == 1 and norm(sg[3][0][0]) == norm(edges_q):
                bs = [y for y in subterms(sg[2], lambda y: y[0] == "bound")]
                if len(bs) == 1 and norm(sg[2]) == norm(gate(bs[0])):
                    return [("gates", tuple(sorted(classify(x, bs[0]) for x in sg[3][0][1])))]
            return [("?", show(sg)[:80])]
        got = sorted(x for sg in segs for x in signature(sg))
        if any(x[0] == "?" or (x[0] == "gates" and any(str(c_).startswith(("?", "not ?")) for c_ in x[1])) for x in got):
            # a condition / a piece of the list that is not read (a rule table of callables, a helper): no verdict on what is not read
            unread = [x for x in got if x[0] == "?" or (x[0] == "gates" and any(str(c_).startswith(("?", "not ?")) for c_ in x[1]))]
            raise AnalysisError(f"{construct}: part of the forbidden list is not read ({str(unread[0])[:120]}); nothing decided")
        want = [("gates", ("intersects",))]
        if must_park:
            want += [("item", _norm_calls(norm(("call", ("fn", "Operation.type_idle"), (), (("qubit_id", q),))))), ("gates", ("not intersects", "not moving"))]
        if must_idle:
            want += [("item", _norm_calls(norm(("call", ("fn", "Operation.type_park"), (), (("qubit_id", q),))))), ("gates", ("moving", "not intersects"))]
        want = sorted(want)
        if got != want:
            missing = [str(w)[:90] for w in want if w not in got]
            extra = [str(g_)[:90] for g_ in got if g_ not in want]
            bad.append(f"neighbour (must park={must_park}, must idle={must_idle}): missing {missing}, unexpected {extra}")
    if min(n_case.values()) == 0:
        raise AnalysisError(f"{construct}: cases not recognised {n_case}")
    rep.check(not bad, "C16.Q7", construct, f.loc, found="; ".join(sorted(set(bad))) or f"member / far / neighbour cases as specified ({n_case})",
              required="member: everything else; far: nothing; neighbour: intersecting gates, + idle & non-moving gates if it must park, + park & moving gates if it must idle",
              what="the constraint that keeps simultaneous gates from sharing or disturbing a qubit is wrong: " + "; ".join(sorted(set(bad))), detail="forbidden")
    g = C.resolve("get_allowed_operations")
    gps = [p for p in PathEnumerator(Evaluator(model, inline_methods=False, opaque={"OperationConstraint.constraint_operations"})).function_paths(g, self_cls=C) if p.exit == "return"]
    gs, gcon = sym(g.self_name), sym([n for n in g.param_names if n != g.self_name][0])
    okg = len(gps) >= 1
    found = []
    for p in gps:
        v = devar(p.value) if p.value is not None else None
        found.append(show(v)[:200] if v else None)
        okv = v is not None and v[0] == "comp" and len(v[3]) == 1 and len(v[3][0][1]) == 1 and v[2][0] == "bound"
        if okv:
            cnd = v[3][0][1][0]
            okv = cnd == t_not(("in", v[2], ("attr", gs, "constraint_operations")))
            dom = v[3][0][0]
            if dom[0] == "call" and dom[1] == ("fn", "array_manipulation.unique_in_order"):
                dom = (list(dom[2]) + [x for _, x in dom[3]])[0]
            okv = okv and dom[0] == "comp" and len(dom[3]) == 2 and dom[3][0] == (("attr", gcon, "qubit_ids"), ()) and not dom[3][1][1] \
                and "get_possible_operations" in show(dom[3][1][0]) and dom[2][0] == "bound" and dom[2][3] == show(dom[3][1][0])
        okg = okg and okv
    rep.check(okg, "C16.Q7", "OperationConstraint.get_allowed_operations", g.loc, found=found, required="[o for o in <possible operations of ALL qubits> if o not in self.constraint_operations]",
              what="allowed operations are not the complement of the forbidden ones over the whole device", detail="allowed")
    cprop = C.properties.get("constraint_operations")
    v = devar(Evaluator(model, inline_methods=False).value_of(cprop, self_cls=C))
    cs = sym(cprop.self_name)
    inner = v
    if inner[0] == "call" and inner[1] == ("fn", "array_manipulation.unique_in_order"):
        inner = (list(inner[2]) + [x for _, x in inner[3]])[0]
    okc = inner[0] == "comp" and len(inner[3]) == 2 and inner[3][0] == (("values", ("attr", cs, "forbidden_operations")), ()) and not inner[3][1][1] \
        and inner[3][1][0][0] == "bound" and inner[2][0] == "bound" and inner[2] != inner[3][1][0]
    rep.check(okc, "C16.Q7", "OperationConstraint.constraint_operations", cprop.loc, found=show(v)[:200], required="every forbidden operation of every qubit (flattened, unfiltered)",
              what="constraints of some qubits are dropped from the constraint set", detail="constraint-set")
    G = model.cls("GateSequenceGenerator")
    cc = G.resolve("construct_operation_constraints")
    v = Evaluator(model, inline_methods=False).value_of(cc, self_cls=G)
    cop, ccon = (sym(n) for n in [n for n in cc.param_names if n != cc.self_name][:2])
    okk = v[0] == "new" and v[1] == "OperationConstraint" and dict(v[2]).get("operation") == cop
    if okk:
        fo = devar(dict(v[2]).get("forbidden_operations", NONE))
        okk = fo[0] == "dictcomp" and len(fo[3]) == 1 and fo[3][0] == (("attr", ccon, "qubit_ids"), ()) and fo[1][0] == "bound" \
            and fo[2][0] == "call" and fo[2][1] == ("fn", "OperationConstraint.get_forbidden_operations") \
            and dict(fo[2][3]) == {"operation": cop, "qubit_id": fo[1], "connectivity": ccon}
    rep.check(okk, "C16.Q7", "GateSequenceGenerator.construct_operation_constraints", cc.loc, found=show(v)[:220], required="{q: get_forbidden_operations(operation, q, connectivity) for q in ALL connectivity.qubit_ids}",
              what="the constraints of an operation are not collected for every qubit of the device", detail="constraints-all-qubits")
    po = C.resolve("get_possible_operations")
    pps = [p for p in PathEnumerator(Evaluator(model, inline_methods=False)).function_paths(po, self_cls=C) if p.exit == "return"]
    pq, pcon = (sym(n) for n in [n for n in po.param_names if n != po.self_name][:2])
    okp = len(pps) == 1
    if okp:
        from .common import star_segments
        segs = contents(pps[0], pps[0].value) if pps[0].value is not None and pps[0].value[0] == "var" else ([devar(pps[0].value)] if pps[0].value is not None else None)
        flat = []
        def _parts(x_):
            x_ = devar(x_)
            return [z_ for y_ in x_[1] for z_ in _parts(y_)] if x_[0] == "concat" else [x_]
        for sg in [y for x in segs or [] for w_ in _parts(x) for y in star_segments(devar(w_))]:
            sg = devar(sg)
            flat.extend([("item", x) for x in sg[1]] if sg[0] == "list" else [("comp", sg)])
        want_items = {_norm_calls(("call", ("fn", "Operation.type_idle"), (), (("qubit_id", pq),))), _norm_calls(("call", ("fn", "Operation.type_park"), (), (("qubit_id", pq),)))}
        items = {_norm_calls(x) for k, x in flat if k == "item"}
        comps = [x for k, x in flat if k == "comp"]
        okp = items == want_items and len(comps) == 1 and comps[0][0] == "comp" and len(comps[0][3]) == 1 and not comps[0][3][0][1] \
            and _strip_lines(comps[0][3][0][0]) == _strip_lines(("call", ("attr", pcon, "get_edges"), (), (("qubit", pq),))) and comps[0][2][0] == "call" and comps[0][2][1] == ("fn", "Operation.type_gate")
    rep.check(okp, "C16.Q7", "OperationConstraint.get_possible_operations", po.loc, found=[show(p.value)[:120] for p in pps], required="idle(q), park(q) and gate(e) for EVERY edge e of q",
              what="some operation a qubit could perform is not considered (and therefore never forbidden or allowed)", detail="possible")


# ---------------------------------------------------------------------------------------------
# Q9 -- device primitives the skeletons of Q3..Q7 are written in
# ---------------------------------------------------------------------------------------------
def _args_of(c: Term) -> List[Term]:
    return list(c[2]) + [v for _, v in c[3]]


def _is_method_call(t: Term, name: str) -> bool:
    return t[0] == "call" and isinstance(t[1], tuple) and t[1][0] == "attr" and t[1][2] == name


def _return_paths(model: Model, f: FunctionInfo, cls=None):
    pe = PathEnumerator(Evaluator(model, inline_methods=False))
    ps = pe.function_paths(f, self_cls=cls)
    return [p for p in ps if p.exit == "return"], [p for p in ps if p.exit == "raise"]


def _as_comp(p: Path, v: Term) -> Term:
    from ..extreme import fuse_comprehensions
    from ..listflow import resolve_lists
    from .common import devar
    return devar(fuse_comprehensions(resolve_lists(p, v)))


def q9(model: Model, rep: Report):
    rep.rule("C16.Q9", "device primitives: EdgeIDObj.contains(q) == q is one of its two qubits; get_connected_qubit_id(q) == the other qubit (raises for a foreign qubit); "
                       "qubit_ids == both qubits; Surface17Layer.get_edges(q) == every device edge that contains q (whole edge table, no other filter); "
                       "get_neighbors(q) == the partner of q on every such edge; get_frequency_group_identifier(q) == the table entry of q; "
                       "get_neighbors(edge) == the neighbours of BOTH its qubits")
    from ..listflow import as_flatmap
    E = model.cls("EdgeIDObj")
    L = model.cls("Surface17Layer")
    s = sym("self")
    q0, q1 = ("attr", s, "qubit_id0"), ("attr", s, "qubit_id1")
    # -- EdgeIDObj.contains ----------------------------------------------------------------------
    f = E.resolve("contains")
    ev = Evaluator(model)
    el = sym([p for p in f.param_names if p != f.self_name][0])
    formula = bool_value(ev.eval_function(f, self_cls=E))
    ats = atoms_of(formula)
    eq = lambda x, y: [a for a in ats if a in (t_cmp("==", x, y), t_cmp("==", y, x))]
    e0, e1 = eq(q0, el), eq(q1, el)
    member = [a for a in ats if a[0] == "in" and a[1] == el]
    if len(member) == 1 and len(ats) == 1 and formula == member[0]:
        dom = member[0][2]
        if dom == ("attr", s, "qubit_ids") and "qubit_ids" in E.properties:
            dom = Evaluator(model).value_of(E.properties["qubit_ids"], self_cls=E)
        from ..listflow import unroll_comp
        dom = unroll_comp(dom)
        items = set(dom[1]) if dom[0] in ("list", "tuple", "set") else None
        if items is None:
            raise AnalysisError(f"EdgeIDObj.contains: membership domain not read: {show(dom)}")
        rep.check(items == {q0, q1}, "C16.Q9", "EdgeIDObj.contains", f.loc, found=show(formula), required="element in (qubit_id0, qubit_id1)", what="an edge does not report exactly its two qubits as contained", detail="contains")
    elif set(ats) <= set(e0[:1] + e1[:1]):
        bad = []
        for v0, v1 in itertools.product((TRUE, FALSE), repeat=2):
            env = {}
            if e0:
                env[e0[0]] = v0
            if e1:
                env[e1[0]] = v1
            got = subst(formula, env) if env else formula
            if got not in (TRUE, FALSE):
                raise AnalysisError(f"EdgeIDObj.contains does not reduce: {show(got)}")
            if (got == TRUE) != (v0 == TRUE or v1 == TRUE):
                bad.append(f"q==qubit_id0:{v0 == TRUE}, q==qubit_id1:{v1 == TRUE} -> {got == TRUE}")
        rep.check(not bad, "C16.Q9", "EdgeIDObj.contains", f.loc, found="; ".join(bad) or show(formula), required="element == qubit_id0 or element == qubit_id1",
                  what="an edge does not report exactly its two qubits as contained: " + "; ".join(bad), detail="contains")
    else:
        raise AnalysisError(f"EdgeIDObj.contains: formula not recognised: {show(formula)}")
    # -- EdgeIDObj.get_connected_qubit_id ------------------------------------------------------------
    f = E.resolve("get_connected_qubit_id")
    el = sym([p for p in f.param_names if p != f.self_name][0])
    rets, raises = _return_paths(model, f, E)
    a0, a1 = t_cmp("==", q0, el), t_cmp("==", q1, el)
    bad = []
    seen = {"0": False, "1": False}
    for p in rets:
        c = p.cond
        ats = atoms_of(c)
        norm = {}
        for a in ats:
            if a in (a0, t_cmp("==", el, q0)):
                norm[a] = "a0"
            elif a in (a1, t_cmp("==", el, q1)):
                norm[a] = "a1"
            else:
                raise AnalysisError(f"EdgeIDObj.get_connected_qubit_id: guard not recognised: {show(a)}")
        for v0, v1 in ((TRUE, FALSE), (FALSE, TRUE)):
            env = {a: (v0 if k == "a0" else v1) for a, k in norm.items()}
            if subst(c, env) == TRUE:
                want = q1 if v0 == TRUE else q0
                seen["0" if v0 == TRUE else "1"] = True
                if p.value != want:
                    bad.append(f"for element == {'qubit_id0' if v0 == TRUE else 'qubit_id1'} returns {show(p.value)}")
    for v0, v1 in ((FALSE, FALSE),):
        for p in rets:
            env = {}
            for a in atoms_of(p.cond):
                env[a] = FALSE
            if subst(p.cond, env) == TRUE:
                bad.append(f"returns {show(p.value)} for a qubit that is not part of the edge")
    if not all(seen.values()):
        bad.append("no partner returned for one of the two qubits")
    rep.check(not bad, "C16.Q9", "EdgeIDObj.get_connected_qubit_id", f.loc, found="; ".join(bad) or "qubit_id0 -> qubit_id1, qubit_id1 -> qubit_id0, otherwise raises",
              required="the other qubit of the edge; raises for a foreign qubit", what="the partner of a qubit on an edge is wrong: " + "; ".join(bad), detail="partner")
    # -- EdgeIDObj.qubit_ids --------------------------------------------------------------------------
    if "qubit_ids" in E.properties:
        fq = E.properties["qubit_ids"]
        v = Evaluator(model).value_of(fq, self_cls=E)
        from ..sym import _plain_display
        from ..listflow import unroll_comp
        v = _plain_display(unroll_comp(v))
        while v[0] == "call" and v[1] in ("list", "tuple") and len(v[2]) == 1 and not v[3] and _plain_display(v[2][0])[0] in ("list", "tuple"):
            v = (v[1],) + _plain_display(v[2][0])[1:]       # list(<tuple display>) / tuple(<list display>) are the display
        ok = v[0] in ("list", "tuple") and sorted(map(show, v[1])) == sorted(map(show, (q0, q1))) and len(v[1]) == 2
        rep.check(ok, "C16.Q9", "EdgeIDObj.qubit_ids", fq.loc, found=show(v), required="[qubit_id0, qubit_id1]", what="an edge does not list exactly its two qubits", detail="qubit_ids")
    else:
        raise AnalysisError("EdgeIDObj.qubit_ids not found")
    # -- Surface17Layer.get_edges ------------------------------------------------------------------------
    f = L.resolve("get_edges")
    qn = sym([p for p in f.param_names if p != f.self_name][0])
    rets, _ = _return_paths(model, f, L)
    table = (("attr", s, "_qubit_edges"), ("attr", s, "edge_ids"))
    if len(rets) != 1:
        raise AnalysisError(f"Surface17Layer.get_edges: {len(rets)} return paths")
    v = _as_comp(rets[0], rets[0].value)
    if v[0] != "comp" or len(v[3]) != 1:
        raise AnalysisError(f"Surface17Layer.get_edges: not read as one filtered scan: {show(v)[:160]}")
    dom, conds = v[3][0]
    bad = []
    if dom not in table:
        bad.append(f"ranges over {show(dom)} instead of the whole edge table")
    if v[2][0] != "bound":
        bad.append(f"yields {show(v[2])} instead of the scanned edge")
    okc = len(conds) == 1 and (_is_method_call(conds[0], "contains") and conds[0][1][1] == v[2] and _args_of(conds[0]) == [qn]
                               or conds[0] == ("in", qn, ("attr", v[2], "qubit_ids")))
    if not okc:
        bad.append(f"filter is {[show(c) for c in conds]} instead of edge.contains(qubit)")
    rep.check(not bad, "C16.Q9", "Surface17Layer.get_edges", f.loc, found=show(v)[:200], required="[edge for edge in <all device edges> if edge.contains(qubit)]",
              what="the edges of a qubit are not exactly the device edges that contain it: " + "; ".join(bad), detail="edges-of")
    # -- Surface17Layer.get_neighbors --------------------------------------------------------------------
    f = L.resolve("get_neighbors")
    qn = sym([p for p in f.param_names if p != f.self_name][0])
    rets, _ = _return_paths(model, f, L)
    if len(rets) != 1:
        raise AnalysisError(f"Surface17Layer.get_neighbors: {len(rets)} return paths")
    v = _as_comp(rets[0], rets[0].value)
    if v[0] != "comp" or len(v[3]) != 1:
        raise AnalysisError(f"Surface17Layer.get_neighbors: not read as one scan: {show(v)[:160]}")
    dom, conds = v[3][0]
    bad = []
    b = subterms(v[2], lambda y: y[0] == "bound")
    edges_call_ok = _is_method_call(dom, "get_edges") and dom[1][1] == s and _args_of(dom) == [qn]
    direct_ok = dom in table and len(conds) == 1 and _is_method_call(conds[0], "contains") and _args_of(conds[0]) == [qn]
    if not (edges_call_ok and not conds or direct_ok):
        bad.append(f"ranges over {show(dom)} {[show(c) for c in conds]} instead of all edges of the qubit")
    if not (_is_method_call(v[2], "get_connected_qubit_id") and len(b) >= 1 and v[2][1][1] == b[0] and _args_of(v[2]) == [qn]):
        bad.append(f"yields {show(v[2])} instead of the partner of the qubit on the scanned edge")
    order_guard = [a for a in atoms_of(rets[0].cond)]
    rep.check(not bad, "C16.Q9", "Surface17Layer.get_neighbors", f.loc, found=show(v)[:200], required="[edge.get_connected_qubit_id(qubit) for edge in self.get_edges(qubit)]",
              what="the neighbours of a qubit are not its partners on all its edges: " + "; ".join(bad), detail="neighbours-of")
    # -- Surface17Layer.get_frequency_group_identifier ---------------------------------------------------
    f = L.resolve("get_frequency_group_identifier")
    qn = sym([p for p in f.param_names if p != f.self_name][0])
    v = Evaluator(model, inline_methods=False).value_of(f, self_cls=L)
    rep.check(v == ("sub", ("attr", s, "_frequency_group_lookup"), qn), "C16.Q9", "Surface17Layer.get_frequency_group_identifier", f.loc, found=show(v), required="self._frequency_group_lookup[element]",
              what="the frequency group reported for a qubit is not its table entry", detail="group-of")
    # -- module-level get_neighbors(element) -----------------------------------------------------------------
    f = model.function("connectivity_surface_code", "get_neighbors")
    e_, c_, o_ = (sym(p) for p in f.param_names[:3])
    rets, _ = _return_paths(model, f)
    isq, ise = ("isinstance", e_, "IQubitID"), ("isinstance", e_, "IEdgeID")
    bad = []
    n_q = n_e = 0

    def dev_call(x, who):
        return _is_method_call(x, "get_neighbors") and x[1][1] == c_ and dict(x[3]).get("qubit", x[2][0] if x[2] else None) == who and dict(x[3]).get("order", x[2][1] if len(x[2]) > 1 else o_) == o_
    for p in rets:
        if subst(p.cond, {isq: FALSE}) == FALSE:
            n_q += 1
            if not dev_call(p.value, e_):
                bad.append(f"qubit case returns {show(p.value)[:100]}")
        elif subst(p.cond, {ise: FALSE}) == FALSE:
            n_e += 1
            val = p.value
            if val[0] == "call" and val[1] == ("fn", "array_manipulation.unique_in_order"):
                val = _args_of(val)[0]
            fm = as_flatmap(p, val) if val[0] == "var" else None
            if fm is None:
                cv = _as_comp(p, val)
                if cv[0] == "comp" and len(cv[3]) == 2 and not cv[3][0][1] and not cv[3][1][1] and cv[2] == ("bound", cv[2][1], cv[2][2], show(cv[3][1][0])) if cv[2][0] == "bound" else False:
                    fm = (cv[3][0][0], [y for y in subterms(cv[3][1][0], lambda y: y[0] == "bound")][0], cv[3][1][0])
            if fm is None:
                raise AnalysisError(f"get_neighbors(edge): union not read: {show(val)[:120]}")
            dom, bnd, per = fm
            if dom != ("attr", e_, "qubit_ids"):
                bad.append(f"edge case ranges over {show(dom)} instead of both qubits of the edge")
            if not dev_call(per, bnd):
                bad.append(f"edge case collects {show(per)[:100]} instead of the neighbours of each of its qubits")
        else:
            bad.append(f"unexpected return under {show(p.cond)[:80]}")
    if n_q == 0 or n_e == 0:
        raise AnalysisError("get_neighbors(element): qubit / edge cases not recognised")
    rep.check(not bad, "C16.Q9", "get_neighbors", f.loc, found="; ".join(bad) or "qubit -> device neighbours; edge -> neighbours of both its qubits", required="neighbours of a qubit / of BOTH qubits of an edge",
              what="the spectators of a gate are not the neighbours of both its qubits: " + "; ".join(bad), detail="neighbours-of-edge")


# ---------------------------------------------------------------------------------------------
# Q8 -- the exhaustive statement, decided on the extracted tables in the pinned skeleton
# ---------------------------------------------------------------------------------------------
def q8(model: Model, rep: Report):
    rep.rule("C16.Q8", "with the functions pinned to their skeletons by Q1, Q3..Q7 and Q9, the exhaustive statement is a fact about the literal device tables: evaluated "
                       "in the checker's own transcription of those skeletons over the extracted tables (no repository code is run), for ALL subsets of up to four of the "
                       "device edges acceptance == (no shared qubit and no two neighbouring qubits of different gates at one operating level, a gate operating at the "
                       "level of its lower member), and for every qubit-disjoint subset and every idle qubit requires-parking == (it neighbours the higher member of an "
                       "active gate and its own level is that gate's operating level)")
    t = surface_tables(model)
    qs = list(t["qubits"])
    groups = t["groups"]
    if any(groups.get(q) not in ORDER for q in qs):
        raise AnalysisError("C16.Q8: frequency table incomplete (see C16.Q2)")
    lv = {q: ORDER[groups[q]] for q in qs}
    edges = [tuple(e) for e in t["edges"]]
    eset = [frozenset(e) for e in edges]
    edges_of = {q: [i for i, e in enumerate(eset) if q in e] for q in qs}

    def partner(i, q):
        a, b = edges[i]
        return b if q == a else a
    nb = {q: [partner(i, q) for i in edges_of[q]] for q in qs}

    def nb_edge(i):
        out = []
        for q in edges[i]:
            for n in nb[q]:
                if n not in out:
                    out.append(n)
        return out

    def moving(q, i):
        return q in eset[i] and lv[q] > lv[partner(i, q)]

    def first_gate(S, n):
        for i in S:
            if n in eset[i]:
                return i
        return None

    def req_park(q, S):
        if not any(q in nb_edge(i) for i in S):
            return False
        if any(q in eset[i] for i in S):
            return False
        return any(lv[n] > lv[q] and moving(n, first_gate(S, n)) for n in nb[q] if first_gate(S, n) is not None)

    def req_idle(q, S):
        if not any(q in nb_edge(i) for i in S):
            return False
        return any(lv[n] < lv[q] and not moving(n, first_gate(S, n)) for n in nb[q] if first_gate(S, n) is not None)

    def possible(q):
        return [("idle", q), ("park", q)] + [("gate", i) for i in edges_of[q]]

    def forbidden(i, q):
        if q in eset[i]:
            return [o for o in possible(q) if o != ("gate", i)]
        if q not in nb_edge(i):
            return []
        avail = [j for j in edges_of[q] if not (eset[j] & eset[i])]
        res = [("gate", j) for j in edges_of[q] if j not in avail]
        if req_park(q, [i]):
            res.append(("idle", q))
            res += [("gate", j) for j in avail if not moving(q, j)]
        if req_idle(q, [i]):
            res.append(("park", q))
            res += [("gate", j) for j in avail if moving(q, j)]
        return res
    n_e = len(edges)
    allowed = []
    for i in range(n_e):
        forb = {o for q in qs for o in forbidden(i, q)}
        allowed.append({o for q in qs for o in possible(q)} - forb)
    ok = [[("gate", j) in allowed[i] for j in range(n_e)] for i in range(n_e)]

    def level(i):
        return min(lv[q] for q in edges[i])

    def spec_pair(i, j):
        if i == j:
            return True
        if eset[i] & eset[j]:
            return False
        return not any(b in nb[a] and level(i) == level(j) for a in edges[i] for b in edges[j])
    bad: List[str] = []
    n_sub = n_acc = 0
    for k in range(1, 5):
        for S in itertools.combinations(range(n_e), k):
            n_sub += 1
            got = all(ok[a][b] for a in S for b in S)
            want = all(spec_pair(a, b) for a in S for b in S)
            n_acc += got
            if got != want and len(bad) < 5:
                bad.append(f"{{{', '.join('-'.join(edges[i]) for i in S)}}}: accepted={got}, collision-free={want}")
    rep.check(not bad, "C16.Q8", "Surface17Layer[acceptance over all edge subsets]", t["loc"], found="; ".join(bad) or f"{n_sub} subsets of <= 4 of {n_e} edges, {n_acc} accepted, all agree with the collision rule",
              required="accepted iff no shared qubit and no neighbouring qubits of two gates at one operating level", what="with today's device tables the acceptance rule and the collision rule disagree: " + "; ".join(bad), detail="acceptance")
    rep.analysed["C16.Q8 subsets"] = n_sub
    rep.analysed["C16.Q8 accepted"] = n_acc
    badp: List[str] = []
    n_p = 0
    for k in range(1, 5):
        for S in itertools.combinations(range(n_e), k):
            inv = set().union(*(eset[i] for i in S))
            if len(inv) != 2 * k:
                continue
            for q in qs:
                if q in inv:
                    continue
                n_p += 1
                got = req_park(q, list(S))
                want = False
                for i in S:
                    hi = max(edges[i], key=lambda x: lv[x])
                    if hi in nb[q] and lv[q] == level(i):
                        want = True
                if got != want and len(badp) < 5:
                    badp.append(f"{q} idle beside {{{', '.join('-'.join(edges[i]) for i in S)}}}: requires parking={got}, collides={want}")
    rep.check(not badp, "C16.Q8", "Surface17Layer[parking over all disjoint edge subsets]", t["loc"], found="; ".join(badp) or f"{n_p} (idle qubit, gate set) cases agree",
              required="requires parking iff it neighbours the higher member of an active gate and idles at that gate's operating level",
              what="with today's device tables the parking rule and the collision rule disagree: " + "; ".join(badp), detail="parking")
    rep.analysed["C16.Q8 parking cases"] = n_p
    if n_e >= 24:
        rep.floor("C16.Q8 subsets of up to four edges", n_sub, 12950)
