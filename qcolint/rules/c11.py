"""C11 -- flattening keeps the operations, and for library circuits the program (claimed in part).

F1  CircuitCompositeOperation.apply_flatten_to_self rebuilds a fresh graph from self.decomposed_operations() (identity wrappers such
    as tqdm seen through) with exactly one add_to_graph per element and no filter, rebinds _circuit_graph to that graph on every
    path and returns self; together with C02.L5 no composite survives and a second flatten sees the same elements.
F2  DeclarativeCircuit.flatten delegates to the structure and binds the registry to it (= C07.A5).
F3  construct_repetition_code_multi_round_circuit: per round, in this order: construct (with the caller's description and initial state)
    -> apply_modifiers -> flatten -> add -> Barrier(all qubits); the calibration circuit is added last.
F4  re-linking while rebuilding: add_to_graph (= C01.R6) and the expansion in place (= C02.L5).
Not decided: order / schedule / index / Stim identity before and after flattening (run-time facts of the rebuilt graph).
"""
from __future__ import annotations

import ast
from typing import List, Optional

from ..builder import emits
from ..model import is_helper_name as _is_helper_name
from ..model import AnalysisError, Model
from ..paths import Path, PathEnumerator, find_calls
from ..report import Report
from ..sym import FALSE, NONE, TRUE, Evaluator, Term, atoms_of, show, subterms, sym
from .common import is_call_of, loop_of, share_rule, strip_identity_wrappers


def check(model: Model, rep: Report, tier: str):
    from .common import depth_bound_assumption
    depth_bound_assumption(model, rep)
    with rep.isolated():
        f1(model, rep)
    with rep.isolated():
        f5(model, rep)
    with rep.isolated():
        f2(model, rep)
    with rep.isolated():
        f3(model, rep, "C11.F3")
    from .c01 import r6
    from .c02 import l5
    with rep.isolated():
        share_rule(rep, model, r6, "C11.F4", "rebuilding the graph places every listed operation exactly once, under its reference or (when that reference was a dissolved "
                   "sub-circuit) behind the channel leaf found by a real leaf query (= C01.R6); the listing that is rebuilt from expands every node in place (= C02.L5)")
    with rep.isolated():
        share_rule(rep, model, l5, "C11.F4", "")
    from .common import instance_state_rule
    with rep.isolated():
        instance_state_rule(model, rep, "C11.F7", "the graph a circuit is rebuilt into is its own: containers that graph / composite classes change through self are bound per "
                            "instance -- a class-level lookup shared by all graphs makes flatten find the nodes of the OLD nested graph and attach operations there",
                            keep=lambda c: "/structure/" in c.module.relpath.replace("\\", "/") and ("graph" in c.module.relpath or "composite" in c.module.relpath), floor=3)
    with rep.isolated():
        f8(model, rep)
    from .common import idle_wait_channel_rule
    with rep.isolated():
        idle_wait_channel_rule(model, rep, "C11.F11")
    from .c01 import r13 as _r13
    with rep.isolated():
        share_rule(rep, model, _r13, "C11.F10", "a nested block reports the channels of all its operations, a flattened circuit asks each operation itself: both give the same implicit "
                   "predecessor only if the block's de-duplicated channel listing loses nothing -- ChannelIdentifier's hash separates the channels of a qubit and the helper de-duplicates "
                   "through a hash container (= C01.R13)")
    from .c04 import duration_rule as _d
    with rep.isolated():
        share_rule(rep, model, _d, "C11.F12", "what follows a nested block starts at the block's reported end; after flattening it follows the block's last operation itself: both "
                   "agree only if the block's duration is latest end minus earliest start over all its operations (= C04.D1/D2)")
    from .c01 import r5
    with rep.isolated():
        share_rule(rep, model, r5, "C11.F6", "an operation that pointed at a dissolved sub-circuit is re-linked behind the LATEST node sharing one of its channels -- the leaf query "
                   "skips no node (zero-length markers close a block and are its last nodes), so the follower keeps its place in listing and schedule (= C01.R5)")
    rep.rules_text["C11.F4"] = ("rebuilding the graph places every listed operation exactly once, under its reference or behind the channel leaf found by a real leaf query "
                                "(= C01.R6); the listing that is rebuilt from expands every node in place (= C02.L5)")


def f8(model: Model, rep: Report):
    """Sibling agreement in the QEC block builder: the marker that closes a block occupies the same channels as the block's barriers."""
    rep.rule("C11.F8", "get_circuit_qec_with_detectors: every CoordinateShiftOperation that closes a block is placed on the same qubits as the Barriers of that "
                       "builder (all qubits of the description): after flatten() the operations that followed a dissolved block are re-linked behind the LAST node "
                       "sharing a channel with them -- a closing marker on fewer channels lets data-qubit operations re-attach to an earlier barrier, and listing / "
                       "schedule / Stim record offsets differ before and after flattening")
    from ..sym import subterms as _sub
    f = model.function("repetition_code.circuit_components", "get_circuit_qec_with_detectors")
    ev = Evaluator(model, inline_methods=False)
    ps = PathEnumerator(ev).function_paths(f)
    shifts, barriers = [], []

    def news(p):
        for e in p.events:
            if e.term is not None:
                for t in _sub(e.term, lambda y: y[0] == "new" and y[1] in ("CoordinateShiftOperation", "Barrier")):
                    q = dict(t[2]).get("qubit_indices")
                    (shifts if t[1] == "CoordinateShiftOperation" else barriers).append(q)
            if e.kind == "loop":
                for bp in e.extra["paths"]:
                    news(bp)
    for p in ps:
        news(p)
    from .common import devar
    bset = {repr(devar(b)) for b in barriers if b is not None}
    sset = {repr(devar(x)): x for x in shifts if x is not None}
    rep.floor("closing coordinate shifts in get_circuit_qec_with_detectors", len(shifts), 3)
    if not bset:
        raise AnalysisError("get_circuit_qec_with_detectors: no Barrier found to compare the closing markers with")
    bad = [x for k, x in sset.items() if k not in bset]
    rep.check(not bad, "C11.F8", "get_circuit_qec_with_detectors[closing marker]", f.loc, found="; ".join(sorted({show(x)[:60] for x in shifts if x is not None})),
              required="the qubits of the builder's Barriers: " + "; ".join(sorted({show(b)[:60] for b in barriers if b is not None})),
              what="a block's closing CoordinateShiftOperation covers other channels than the barriers: followers of the dissolved block re-link behind an earlier node "
                   "after flatten(), so order, schedule and record offsets change", detail="closing-marker")


def f1(model: Model, rep: Report):
    rep.rule("C11.F1", "apply_flatten_to_self: a fresh CircuitGraphBranch; for every element of self.decomposed_operations() exactly one "
                       "CircuitGraphBranch.add_to_graph(graph=<fresh graph>, operation=<element>), unconditionally; self._circuit_graph := that graph on every path; returns self")
    K = model.cls("CircuitCompositeOperation")
    f = K.resolve("apply_flatten_to_self")
    ev = Evaluator(model, inline_methods=False)
    ps = PathEnumerator(ev).function_paths(f, self_cls=K)
    s = sym(f.self_name)
    construct = "CircuitCompositeOperation.apply_flatten_to_self"
    n = 0
    for p in [q for q in ps if q.exit in ("return", "fall")]:
        n += 1
        lp = loop_of(p)
        stores = [e.term for e in p.events if e.kind == "store" and e.term[1] == s and e.term[2] == "_circuit_graph"]
        if lp is None or len(stores) != 1:
            rep.fail("C11.F1", construct, f.loc, found=f"path [{show(p.cond)}]: {'no rebuild loop' if lp is None else ''} {len(stores)} graph re-bindings", required="rebuild and rebind on every path",
                     what="some path leaves the nested graph in place (flatten returns a circuit that still contains sub-circuits)", detail="no-rebuild")
            continue
        src = strip_identity_wrappers(lp.term)
        rep.check(src == ("call", ("attr", s, "decomposed_operations"), (), ()), "C11.F1", construct + "[source]", f.loc, found=show(lp.term), required="self.decomposed_operations() (whole listing, in order)",
                  what="the flat graph is not rebuilt from the complete operation listing", detail="source")
        elem = ("bound", "for", lp.node.lineno, show(lp.term))
        graph = stores[0][3]
        rebound = None
        if graph[0] == "after" and graph[1] in lp.extra["init_env"]:
            # ``g = CircuitGraphBranch.add_to_graph(g, op)`` in the loop: add_to_graph hands back the graph it was given (C01.R6), so the name keeps
            # denoting the graph it was bound to before the loop
            rebound = ("loopvar", graph[1], lp.node.lineno)
            same = all(bp.env.get(graph[1]) == rebound or
                       (find_calls(bp.env.get(graph[1]), "add_to_graph") and bp.env.get(graph[1])[0] == "call" and
                        (dict(bp.env.get(graph[1])[3]).get("graph", (list(bp.env.get(graph[1])[2]) + [None])[0]) == rebound))
                       for bp in lp.extra["paths"])
            graph = lp.extra["init_env"][graph[1]] if same else graph
        fresh = graph[0] in ("new", "call", "var") and "CircuitGraphBranch" in show(graph) and not subterms(graph, lambda y: y == s)
        bad = []
        for bp in lp.extra["paths"]:
            calls = [c for e in bp.events if e.kind in ("effect", "assign") and e.term is not None for c in find_calls(e.term, "add_to_graph")]
            calls = list({repr(c): c for c in calls}.values())
            if len(calls) != 1 or atoms_of(bp.cond) or bp.exit not in ("fall", "continue"):
                bad.append(f"{len(calls)} add_to_graph on path [{show(bp.cond)}], exit {bp.exit}")
                continue
            kw = dict(calls[0][3])
            pos = list(calls[0][2])
            g = kw.get("graph", pos[0] if pos else None)
            o = kw.get("operation", pos[1] if len(pos) > 1 else None)
            if o != elem:
                bad.append(f"adds {show(o) if o else None} instead of the listed element")
            if g != graph and g != rebound and not (g is not None and g[0] in ("loopvar", "after")):
                bad.append("adds to another graph than the one that is bound afterwards")
        rep.check(not bad and fresh, "C11.F1", construct + "[one add per element]", f.loc, found="; ".join(bad) or ("fresh graph, one add per element" if fresh else f"graph is {show(graph)}"),
                  required="exactly one add_to_graph(fresh graph, element) per listed element, no filter", what="flattening loses, duplicates or filters leaf operations: " + "; ".join(bad), detail="adds")
        rep.check(p.value == s or p.exit == "fall", "C11.F1", construct + "[returns self]", f.loc, found=show(p.value) if p.value else None, required="self", what="flatten is not in place", detail="return")
    rep.floor("paths of apply_flatten_to_self", n, 1)


STRUCTURAL = ("_circuit_graph", "repetition_strategy", "_outgoing_pointers", "_incoming_pointers", "_structure", "_added_operations")


def f5(model: Model, rep: Report):
    """F5: flatten does nothing but flatten -- no other structural mutator of the block runs on the way (unrolling, repeating, adding)."""
    rep.rule("C11.F5", "apply_flatten_to_self calls no other structural mutator on the block: every method it invokes on self (or on the block's graph) besides the rebuild itself has a "
                       "transitive write set (call graph + effect analysis) free of graph / repetition-count locations -- e.g. unrolling pending repetitions while flattening "
                       "changes the multiset of leaf operations")
    from ..effects import Effects
    from ..resolve import CallGraph
    K = model.cls("CircuitCompositeOperation")
    f = K.resolve("apply_flatten_to_self")
    cg = CallGraph(model)
    ef = Effects(model, cg)
    s_name = f.self_name
    bad = []
    seen = []
    work = [f]
    bodies = []
    while work:
        g = work.pop()
        if g in bodies:
            continue
        bodies.append(g)
        for n in ast.walk(g.node):
            if isinstance(n, ast.Call) and isinstance(n.func, ast.Attribute) and isinstance(n.func.value, ast.Name) and n.func.value.id == g.self_name:
                m = K.resolve(n.func.attr)
                if m is not None and _is_helper_name(m.name) and m.kind == "method":
                    work.append(m)          # a private helper is a piece of flatten itself (F1 reads it in place): look inside
    calls = []
    for g in bodies:
        for n in ast.walk(g.node):
            if isinstance(n, ast.Call) and isinstance(n.func, ast.Attribute) and isinstance(n.func.value, ast.Name) and n.func.value.id == g.self_name:
                calls.append(n)
    for n in calls:
        if True:
            m = K.resolve(n.func.attr)
            if m is None or m in bodies or m in seen:
                continue
            seen.append(m)
            ws = [(w, path) for w, path in ef.transitive_writes([m]) if w.attr in STRUCTURAL or w.attr.startswith("_cached")]
            if ws:
                w, path = ws[0]
                bad.append(f"self.{n.func.attr}() writes {w.attr} (via {' -> '.join(g.qualname for g in path)})")
    rep.check(not bad, "C11.F5", "CircuitCompositeOperation.apply_flatten_to_self[no other mutator]", f.loc, found="; ".join(bad) or f"methods called on self: {[m.name for m in seen]} -- none writes structure",
              required="only the rebuild changes the block", what="flattening also runs another structural mutation of the block: " + "; ".join(bad), detail="other-mutator")


def _changes_state(K, name: str, depth: int = 0, seen=None) -> bool:
    """the method (or one it calls on self, three levels deep) writes an attribute of self or changes one of its containers in place"""
    seen = seen if seen is not None else set()
    if name in seen or depth > 3:
        return False
    seen.add(name)
    for f in K.resolve_all(name) if hasattr(K, "resolve_all") else [K.resolve(name)]:
        if f is None:
            continue
        sn = f.self_name
        for n in ast.walk(f.node):
            if isinstance(n, (ast.Assign, ast.AnnAssign, ast.AugAssign)):
                for t in (n.targets if isinstance(n, ast.Assign) else [n.target]):
                    if isinstance(t, (ast.Attribute, ast.Subscript)) and any(isinstance(y, ast.Name) and y.id == sn for y in ast.walk(t)):
                        return True
            if isinstance(n, ast.Call) and ast.unparse(n.func).endswith("__setattr__"):
                return True
            if isinstance(n, ast.Call) and isinstance(n.func, ast.Attribute):
                if n.func.attr in ("append", "extend", "insert", "remove", "pop", "clear", "update", "add", "sort", "reverse") and any(isinstance(y, ast.Name) and y.id == sn for y in ast.walk(n.func.value)):
                    return True
                if isinstance(n.func.value, ast.Name) and n.func.value.id == sn and _changes_state(K, n.func.attr, depth + 1, seen):
                    return True
    return False


def find_calls_on(t: Term, recv: Term):
    """call terms ``recv.m(..)`` inside ``t``"""
    return subterms(t, lambda y: y[0] == "call" and isinstance(y[1], tuple) and y[1][0] == "attr" and y[1][1] == recv)


def f2(model: Model, rep: Report):
    rep.rule("C11.F2", "DeclarativeCircuit.flatten: result._structure = self._structure.apply_flatten_to_self() and the result's acquisition registry is built on that structure")
    D = model.cls("DeclarativeCircuit")
    f = D.resolve("flatten")
    ev = Evaluator(model, inline_methods=False)
    ps = PathEnumerator(ev).function_paths(f, self_cls=D)
    s = sym(f.self_name)
    want = ("call", ("attr", ("attr", s, "_structure"), "apply_flatten_to_self"), (), ())
    for p in [q for q in ps if q.exit == "return"]:
        v = p.value
        ok = v is not None and v[0] == "new" and v[1] == "DeclarativeCircuit"
        d = dict(v[2]) if ok else {}
        reg = d.get("_acquisition_registry")
        ok = ok and d.get("_structure") == want and reg is not None and reg[0] == "new" and dict(reg[2]).get("circuit") == want
        rep.check(ok, "C11.F2", "DeclarativeCircuit.flatten", f.loc, found=show(v) if v else None, required="structure = self._structure.apply_flatten_to_self(); registry on that structure",
                  what="the flattened circuit does not carry the flattened structure (or indexes a discarded one)", detail="delegate")
        # flattening removes the nesting ONLY: when called as documented (every optional argument omitted) nothing else is done to the structure
        a_ = f.node.args
        dflt = dict(zip([x.arg for x in (a_.posonlyargs + a_.args)][::-1], list(a_.defaults)[::-1]))
        dflt.update({x.arg: d_ for x, d_ in zip(a_.kwonlyargs, a_.kw_defaults) if d_ is not None})
        mp = {sym(k_): ("const", d_.value) for k_, d_ in dflt.items() if isinstance(d_, ast.Constant)}
        from ..sym import subst as _subst, TRUE as _T, FALSE as _F
        mp = {k_: (_T if v_[1] is True else _F if v_[1] is False else v_) for k_, v_ in mp.items()}
        c_default = _subst(p.cond, mp)
        if c_default == _F:
            continue
        K_ = model.cls("CircuitCompositeOperation")
        others = [e.term for e in p.events if e.kind in ("effect", "assign") and e.term is not None
                  for c_ in find_calls_on(e.term, ("attr", s, "_structure")) if c_[1][2] != "apply_flatten_to_self" and _changes_state(K_, c_[1][2])]
        rep.check(not others, "C11.F2", "DeclarativeCircuit.flatten[only flattens]", f.loc,
                  found="; ".join(show(t)[:80] for t in others) or "the structure is only flattened", required="no other change of the structure when flatten() is called without arguments",
                  what="flatten() called as documented also changes the structure in another way (" + "; ".join(show(t)[:60] for t in others) + "): the multiset of operations is not "
                       "the one of the nested circuit (repeated blocks are unrolled)", detail="only-flatten")


def f3(model: Model, rep: Report, rule: str):
    rep.rule(rule, "construct_repetition_code_multi_round_circuit: for every entry of qec_cycles, in order: construct_repetition_code_circuit(qec_cycles=<entry>, "
                   "description=description, initial_state=initial_state) -> .apply_modifiers() -> .flatten() -> result.add(...) -> result.add(Barrier(all qubits)); after the loop the "
                   "calibration circuit (QUTRIT, the description's calibration qubits) is added last")
    f = model.function("repetition_code.circuit_constructors", "construct_repetition_code_multi_round_circuit")
    ev = Evaluator(model, inline_methods=False)
    ps = PathEnumerator(ev).function_paths(f)
    cycles, desc, init = (sym(p) for p in f.param_names[:3])
    n = 0
    for p in [q for q in ps if q.exit == "return"]:
        n += 1
        all_loops = [e for e in p.events if e.kind == "loop"]
        # the round loop: the one that adds to the result (other loops may prepare tables)
        adding = [e for e in all_loops if any(emits(Path(TRUE, bp.events, bp.env), p.value) for bp in e.extra["paths"])]
        lp = adding[0] if len(adding) == 1 else (loop_of(p) if not adding else None)
        if lp is None:
            raise AnalysisError("multi-round constructor: no single round loop")
        rep.check(lp.term == cycles, rule, "multi_round[rounds]", f.loc, found=show(lp.term), required="every entry of qec_cycles, in order", what="not every requested round count gets a block", detail="rounds")
        elem = ("bound", "for", lp.node.lineno, show(lp.term))
        built = ("call", ("fn", "circuit_constructors.construct_repetition_code_circuit"), (), (("description", desc), ("initial_state", init), ("qec_cycles", elem)))
        unrolled = ("call", ("attr", built, "apply_modifiers"), (), ())
        flat = ("call", ("attr", unrolled, "flatten"), (), ())
        result = p.value
        bad = []
        for bp in lp.extra["paths"]:
            es = emits(Path(TRUE, bp.events, bp.env), result)
            if atoms_of(bp.cond):
                bad.append(f"conditional block: {show(bp.cond)}")
            if len(es) != 2:
                bad.append(f"{len(es)} additions per round")
                continue
            if es[0].term != flat:
                t = es[0].term
                if "flatten" in show(t) and "apply_modifiers" in show(t) and show(t).index("flatten") < show(t).index("apply_modifiers"):
                    bad.append("flatten is applied before apply_modifiers (the repeated rounds are dropped)")
                elif subterms(t, lambda y: y[0] == "call" and y[1] == ("fn", "circuit_constructors.construct_repetition_code_circuit") and dict(y[3]) != dict(built[3])):
                    bad.append("the per-round circuit is not built with (qec_cycles=<entry>, description=description, initial_state=initial_state)")
                else:
                    bad.append(f"adds {show(t)[:160]}")
            b = es[1].term
            from ..sym import Frame
            want_q = ev.attr(desc, "qubit_indices", Frame(f, f.module, {}, None, 0))
            okb = b[0] == "new" and b[1] == "Barrier" and _strip(dict(b[2]).get("qubit_indices")) == _strip(want_q)
            if not okb:
                bad.append(f"second addition is {show(b)[:80]}, not Barrier(description.qubit_indices)")
        rep.check(not bad, rule, "multi_round[block]", f.loc, found="; ".join(sorted(set(bad))) or "construct -> apply_modifiers -> flatten -> add -> barrier", required="construct -> apply_modifiers -> flatten -> add -> Barrier(all)",
                  what="a round block of the multi-round experiment is not the unrolled, flattened single experiment: " + "; ".join(sorted(set(bad))), detail="block")
        tail = [e for e in emits(Path(TRUE, [ev_ for ev_ in p.events if ev_.kind != "loop"], p.env), result)]
        ok = len(tail) == 1 and tail[0].term[0] == "call" and tail[0].term[1] == ("fn", "circuit_constructors.construct_calibration_circuit")
        after = False
        if ok:
            idx_loop = [i for i, e in enumerate(p.events) if e is lp][0]
            idx_add = [i for i, e in enumerate(p.events) if e.kind == "effect" and e.term is not None and "construct_calibration_circuit" in show(e.term) and find_calls(e.term, "add")]
            after = bool(idx_add) and idx_add[-1] > idx_loop
            cd = dict(tail[0].term[3]).get("description")
            okd = cd is not None and cd[0] == "new" and cd[1] == "CalibrationDescription" and dict(cd[2]).get("_type") == ("enum", "CalibrateType", "QUTRIT") \
                and dict(cd[2]).get("_qubit_ids") == ("attr", desc, "calibration_qubit_ids")
            ok = ok and okd
        rep.check(ok and after, rule, "multi_round[calibration last]", f.loc, found=[show(t.term)[:120] for t in tail], required="result.add(construct_calibration_circuit(QUTRIT description of the calibration qubits)) after all rounds",
                  what="the calibration points are not the last block of the experiment", detail="calibration")
    rep.floor("return paths of the multi-round constructor", n, 1)


def _strip(t):
    from .c16 import _strip_lines
    return _strip_lines(t) if t is not None else None
