"""C10 -- library circuits never double-book a qubit channel (claimed in part).

Overlap is a timing fact and is not decidable in general by this family.  Decided (both necessary conditions):

T1  the echo covers the readout: w = max(0, (READOUT - MICROWAVE)/2); the emitted echo is Wait(w), Rx180 (MICROWAVE long), Wait(w) per data
    qubit, so 2w + MICROWAVE >= READOUT in both regions (decided coefficient-wise) -- otherwise the closing barrier, which follows the
    deepest chain, starts while the ancillas are still being read out.
T2  unconditional delimiters: a Barrier over all qubits precedes the parity measurements and (refocusing variant) closes the round;
    state preparation is wrapped in two barriers; heralded initialisation resets every prepared qubit before any heralded measurement;
    every gate / park / phase-update group is followed by a barrier guarded by nothing stronger than the group's own non-emptiness; in
    the calibration builder each shared relation is taken after the preceding group and handed to every first operation of the next.
T3  a changed duration setting invalidates memoised times (= C03.H1): 'whatever the configured durations are'.
"""
from __future__ import annotations

import ast
from fractions import Fraction
from typing import Dict, List, Optional, Tuple

from ..builder import Emit, emits
from ..effects import Effects
from ..model import AnalysisError, Model
from ..paths import Path, PathEnumerator, find_calls
from ..report import Report
from ..resolve import CallGraph
from ..sym import (FALSE, NONE, TRUE, Evaluator, Frame, Term, Unsupported, as_lin, atoms_of, lin, number, satisfiable, show, subst, subterms, sym,
                   t_add, t_and, t_cmp, t_not, t_or, t_scale)
from .c12 import K, ONE, ZERO, resolve_max
from .c16 import _strip_lines
from .common import devar, is_call_of, share_rule

CC = "repetition_code.circuit_components"


def check(model: Model, rep: Report, tier: str):
    with rep.isolated():
        t1(model, rep)
    with rep.isolated():
        t2(model, rep)
    with rep.isolated():
        t4(model, rep)
    from .c03 import h1
    cg = CallGraph(model)
    with rep.isolated():
        share_rule(rep, model, lambda m, r: h1(m, r, cg, Effects(m, cg)), "C10.T3", "the schedule under a changed duration configuration is recomputed: every writer of a duration setting invalidates the memoised start times (= C03.H1)")
    from .c01 import r15
    with rep.isolated():
        r15(model, rep, "C10.T7")
    from .c01 import r4
    with rep.isolated():
        share_rule(rep, model, r4, "C10.T8", "after repetitions are unrolled each copy follows the latest-ENDING leaf of the previous one (= C01.R4): a copy chained behind the "
                   "latest-starting leaf begins while a longer leaf (e.g. the closing barrier) of the previous copy is still running on a shared channel")
    from .c04 import duration_rule
    with rep.isolated():
        share_rule(rep, model, duration_rule, "C10.T9", "what follows a nested block starts at the block's end = start + duration, and the duration is the exact span of its operations "
                   "(= C04.D1/D2): a truncated or partial span lets the follower start while the block still occupies the channel")
    from .common import instance_state_rule
    with rep.isolated():
        instance_state_rule(model, rep, "C10.T6", "a duration configuration belongs to its registry: the table of a duration registry is bound per instance, not a class-level "
                            "container shared by all registries", keep=lambda c: c.module.relpath.endswith("registry_duration.py"))
    from .common import idle_wait_channel_rule
    with rep.isolated():
        idle_wait_channel_rule(model, rep, "C10.T14")
    from .c01 import r5 as _r5, r6 as _r6
    with rep.isolated():
        share_rule(rep, model, _r5, "C10.T13", "an operation added without relation waits for the LATEST operation on any of its channels: the leaf query searches the whole graph, deepest "
                   "layer first (= C01.R5); a query that misses the channel's last operation hangs the new one on the root, on top of what already occupies the channel")
    with rep.isolated():
        share_rule(rep, model, _r6, "C10.T13", "")
    from .c05 import _k1_k2
    with rep.isolated():
        share_rule(rep, model, _k1_k2, "C10.T11", "library circuits are nested copies: copy() of every operation class keeps its duration strategy, channel and relation "
                   "(= C05.K1/K2); a copied wait that lasts 0 lets what follows start while the measurement it was to out-wait still occupies the channel")
    from .c01 import r10 as _r10
    with rep.isolated():
        share_rule(rep, model, _r10, "C10.T12", "under a temporary duration configuration EVERY duration strategy reads the configuration in force: the global strategies read "
                   "through the one getter the override replaces (= C01.R10); a strategy that keeps reading the file configuration disagrees with the operations it is to out-wait")
    from .c03 import h5
    with rep.isolated():
        share_rule(rep, model, lambda m, r: h5(m, r, cg), "C10.T5", "memoised start times are keyed per link: unrolled repetitions and look-alike blocks never share an entry (= C03.H5)",
                   keep=lambda o: "/structure/" in o["loc"] or "/language/" in o["loc"])


# the duration setting each operation kind lasts for (specification table; a class missing here is reported in the evidence only)
DURATION_KIND = {
    "Reset": "RESET", "Identity": "MICROWAVE", "Hadamard": "MICROWAVE", "Rx180": "MICROWAVE", "Rx90": "MICROWAVE", "Rxm90": "MICROWAVE", "Ry180": "MICROWAVE",
    "Ry90": "MICROWAVE", "Rym90": "MICROWAVE", "Rx180ef": "MICROWAVE", "VirtualPhase": "MICROWAVE", "Rphi90": "MICROWAVE", "VirtualPark": "FLUX", "CPhase": "FLUX",
    "DispersiveMeasure": "READOUT",
}
KIND_CHANNEL = {"MICROWAVE": "MICROWAVE", "FLUX": "FLUX", "READOUT": "READOUT", "RESET": "ALL"}


def t4(model: Model, rep: Report):
    """T4: every operation kind lasts for the duration setting of its own kind -- and that kind is one of the channels it books."""
    rep.rule("C10.T4", "every operation class with a global duration reads the setting of its own kind (reset / microwave / flux / readout, specification table) and that kind "
                       "is a channel the operation occupies (sibling agreement between duration_strategy and channel_identifiers): an operation that books the flux channel for "
                       "the microwave duration lets its closing barrier start while the longer neighbour is still running")
    from .c05 import copy_families
    n = 0
    for iface, classes in copy_families(model):
        if iface != "ICircuitOperation":
            continue
        for C in classes:
            fi = C.find_field("duration_strategy")
            if fi is None or fi.default is None:
                continue
            ev = Evaluator(model)
            try:
                v = ev.expr(fi.default, Frame(None, fi.owner.module, {}, fi.owner, 0))
            except Unsupported as e:
                raise AnalysisError(f"{C.name}.duration_strategy default not evaluated: {e}")
            while v[0] == "var" and len(v) == 4:
                v = v[3]
            if not (v[0] == "new" and v[1] == "GlobalDurationStrategy"):
                if C.name in DURATION_KIND:
                    # a class of the specification table that no longer follows the global setting of its kind (e.g. a fixed zero length): its layer partners
                    # last longer than it does, and a barrier that follows it in relation order starts while they are still running
                    n += 1
                    rep.fail("C10.T4", f"{C.name}[duration kind]", C.loc, found=show(v)[:80], required=f"GlobalDurationStrategy({DURATION_KIND[C.name]})",
                             what=f"{C.name} no longer lasts for the {DURATION_KIND[C.name]} setting ({show(v)[:60]}): operations of one layer have different lengths and the "
                                  "barrier that closes the layer follows whichever was added last", detail="kind")
                continue
            k = dict(v[2]).get("key")
            key = k[2] if k is not None and k[0] == "enum" else None
            n += 1
            f = C.properties.get("channel_identifiers") or C.resolve("channel_identifiers")
            chans = set()
            if f is not None:
                try:
                    cv = Evaluator(model, inline_methods=False).value_of(f, self_cls=C)
                    chans = {x[2] for x in subterms(cv, lambda y: y[0] == "enum" and y[1] == "QubitChannel")}
                except Unsupported:
                    chans = set()
            want = DURATION_KIND.get(C.name)
            loc = f"{fi.owner.module.relpath}:{getattr(fi.node, 'lineno', 0)}" if hasattr(fi, "node") else C.loc
            if want is None:
                rep.info(f"C10.T4: operation class {C.name} (duration kind {key}) is not in the specification table")
            else:
                rep.check(key == want, "C10.T4", f"{C.name}[duration kind]", C.loc, found=key, required=want, what=f"{C.name} lasts for the {key} setting instead of the {want} setting", detail="kind")
            if chans:
                rep.check(KIND_CHANNEL.get(key) in chans, "C10.T4", f"{C.name}[duration kind books its channel]", C.loc, found=f"duration {key}, channels {sorted(chans)}", required=f"channel {KIND_CHANNEL.get(key)} among the occupied channels",
                          what=f"{C.name} occupies {sorted(chans)} but lasts for the {key} setting", detail="kind-channel")
    rep.floor("operation classes with a global duration kind", n, 15)


def _global_key(model: Model, cls_name: str) -> Optional[str]:
    C = model.cls(cls_name)
    fi = C.find_field("duration_strategy")
    if fi is None or fi.default is None:
        return None
    ev = Evaluator(model)
    v = ev.expr(fi.default, Frame(None, fi.owner.module, {}, fi.owner, 0))
    if v[0] == "new" and v[1] == "GlobalDurationStrategy":
        k = dict(v[2]).get("key")
        return k[2] if k is not None and k[0] == "enum" else None
    return None


def t1(model: Model, rep: Report):
    rep.rule("C10.T1", "GlobalDecouplingWaitDurationStrategy == max(0, (registry[READOUT] - registry[MICROWAVE]) / 2); Rx180 lasts MICROWAVE and DispersiveMeasure READOUT; the echo "
                       "Wait(w), Rx180, Wait(w) therefore lasts 2w + MICROWAVE >= READOUT for READOUT >= MICROWAVE and for READOUT < MICROWAVE")
    S = model.cls("GlobalDecouplingWaitDurationStrategy")
    f = S.resolve("get_variable_duration")
    v = Evaluator(model, inline_methods=False).value_of(f, self_cls=S)
    s = sym(f.self_name)
    reg = lambda key: ("call", ("attr", ("attr", s, "_registry"), "get_registry_at"), (), (("key", ("enum", "GlobalRegistryKey", key)),))
    RO, MW = reg("READOUT"), reg("MICROWAVE")
    want = ("max", tuple(sorted([ZERO, t_scale(t_add(RO, MW, -1), Fraction(1, 2))], key=repr)))
    rep.check(v == want, "C10.T1", "GlobalDecouplingWaitDurationStrategy.get_variable_duration", f.loc, found=show(v), required="max(0, 0.5 * (READOUT - MICROWAVE))",
              what="the refocusing wait is not half the difference between readout and microwave duration: the echo no longer spans the ancilla readout", detail="wait-form")
    # coverage in both regions, decided on whatever form the code has (no solver: sign of an affine form over one non-negative symbol)
    ok_cov = True
    shown = []
    for name, mp in (("READOUT >= MICROWAVE", {RO: t_add(MW, K)}), ("READOUT < MICROWAVE", {MW: t_add(RO, K)})):
        w = resolve_max(subst(v, mp))
        total = resolve_max(subst(t_add(t_add(t_scale(w, Fraction(2)), MW), RO, -1), mp))
        coeffs, k = as_lin(total)
        nonneg = all(x == K for x in coeffs) and all(c >= 0 for c in coeffs.values()) and k >= 0
        shown.append(f"{name}: 2w + MW - RO = {show(total)}")
        ok_cov = ok_cov and nonneg
    rep.check(ok_cov, "C10.T1", "echo covers the readout", f.loc, found=shown, required="2w + MICROWAVE - READOUT >= 0 in both regions", what="data-qubit echo ends before the ancilla readout does: the round's closing barrier overlaps the measurement", detail="coverage")
    kx, km = _global_key(model, "Rx180"), _global_key(model, "DispersiveMeasure")
    rep.check(kx == "MICROWAVE" and km == "READOUT", "C10.T1", "durations of echo pulse and readout", model.cls("Rx180").loc, found=f"Rx180: {kx}; DispersiveMeasure: {km}", required="Rx180: MICROWAVE; DispersiveMeasure: READOUT",
              what="the echo pulse / readout do not take the durations the wait formula assumes", detail="keys")
    # the echo block itself
    b = model.function(CC, "get_circuit_qec_round_with_dynamical_decoupling")
    ev = Evaluator(model, inline_methods=False, opaque={x.qualname for x in model.all_functions() if x.cls is not None and x.cls.name == "IRepetitionCodeDescription"})
    ps = PathEnumerator(ev).function_paths(b)
    conn = sym(b.param_names[0])
    flag = ("attr", conn, "contains_qubit_refocusing")
    n = 0
    for p in [q for q in ps if q.exit == "return" and subst(q.cond, {flag: TRUE}) == TRUE]:
        n += 1
        es = emits(p, p.value)
        echo = [e for e in es if e.loops and "rotation_data_qubit_indices" in show(e.loops[-1])]
        ok = [e.cls for e in echo] == ["Wait", "Rx180", "Wait"]
        if ok:
            q = subterms(echo[1].field("qubit_index"), lambda y: y[0] == "bound")
            w0, w1 = echo[0].field("duration_strategy"), echo[2].field("duration_strategy")
            dd = lambda t: t is not None and "GlobalDecouplingWaitDurationStrategy" in show(devar(t))
            ok = dd(w0) and dd(w1) and echo[0].field("qubit_index") == echo[1].field("qubit_index") == echo[2].field("qubit_index") and bool(q) \
                and all(e.cond == echo[0].cond for e in echo) and not atoms_of(subst(echo[0].cond, {flag: TRUE}))
        rep.check(ok, "C10.T1", "qec_round_with_dynamical_decoupling[echo block]", b.loc, found=[f"{e.cls}({show(e.field('qubit_index'))[:30]})" for e in echo], required="per data qubit: Wait(decoupling wait), Rx180, Wait(decoupling wait) on that qubit, unconditionally",
                  what="the refocusing block is not wait / pi-pulse / wait with the decoupling duration on both sides", detail="echo")
    rep.floor("refocusing paths of the round builder", n, 1)


# ---------------------------------------------------------------------------------------------
def _is_barrier_all(e: Emit, all_t: Term) -> bool:
    return e.cls == "Barrier" and _strip_lines(devar(e.field("qubit_indices"))) == _strip_lines(devar(all_t))


def t2(model: Model, rep: Report):
    rep.rule("C10.T2", "round builders: Barrier(all qubits) unconditionally right before the parity measurements (and as last emit of the refocusing variant); every emit group inside the "
                       "sequence loop is followed by a Barrier(all) whose guard is implied by the group's non-emptiness; get_circuit_initialize = Barrier, preparation, Barrier; heralded "
                       "initialisation = Reset of every prepared qubit, then heralded measurements, then the wrapped preparation; calibration: relation taken after the heralded "
                       "measurements and handed to the first pulse of every prepared qubit, relation for the final measurements taken after the pulses")
    opaque = {x.qualname for x in model.all_functions() if x.cls is not None and x.cls.name == "IRepetitionCodeDescription"}
    for name in ("get_circuit_qec_round", "get_circuit_qec_round_with_dynamical_decoupling"):
        f = model.function(CC, name)
        ev = Evaluator(model, inline_methods=False, opaque=opaque)
        ps = PathEnumerator(ev).function_paths(f)
        conn = sym(f.param_names[0])
        all_t = ("attr", conn, "qubit_indices")
        for p in [q for q in ps if q.exit == "return"]:
            es = emits(p, p.value)
            meas = [i for i, e in enumerate(es) if e.cls == "DispersiveMeasure"]
            if not meas:
                raise AnalysisError(f"{name}: parity measurements not found")
            i0 = meas[0]
            ok_before = i0 > 0 and _is_barrier_all(es[i0 - 1], all_t) and not es[i0 - 1].loops and not atoms_of(es[i0 - 1].cond)
            rep.check(ok_before, "C10.T2", f"{name}[barrier before readout]", f.loc, found=f"{es[i0 - 1].cls} loops={len(es[i0 - 1].loops)} guard={show(es[i0 - 1].cond)}" if i0 > 0 else "nothing", required="unconditional Barrier(all qubits) immediately before the parity measurements",
                      what="ancilla readout is not separated from the last gates of the round on every path", detail=f"pre-readout:{name}")
            ok_meas = es[i0].loops and "measure_ancilla_qubit_indices" in show(es[i0].loops[-1]) and es[i0].field("acquisition_tag") == ("const", "parity")
            rep.check(ok_meas, "C10.T2", f"{name}[parity measurement of every measured ancilla]", f.loc, found=show(es[i0].loops[-1])[:100] if es[i0].loops else None, required="one 'parity' measurement per connectivity.measure_ancilla_qubit_indices",
                      what="not every measured ancilla is read out once per round", detail=f"readout:{name}")
            if name.endswith("decoupling"):
                last = es[-1]
                rep.check(_is_barrier_all(last, all_t) and not last.loops and not atoms_of(last.cond), "C10.T2", f"{name}[closing barrier]", f.loc, found=f"{last.cls} guard={show(last.cond)} loops={len(last.loops)}", required="unconditional Barrier(all qubits) as last emit",
                          what="a refocusing round is not closed by a barrier: the next round's gates start while echo / readout still run", detail="closing")
            # groups inside the sequence loop: analysed per body path (branch decisions are resolved by the path)
            seq_loops = [e for e in p.events if e.kind == "loop"]
            if not seq_loops:
                raise AnalysisError(f"{name}: sequence loop not found")
            SL = seq_loops[0]
            bad = []
            n_groups = 0
            for bp in SL.extra["paths"]:
                bes = emits(Path(TRUE, bp.events, bp.env), p.value)
                open_groups: List[Tuple[str, Term]] = []
                for e in bes:
                    if e.cls == "Barrier":
                        if _is_barrier_all(e, all_t):
                            open_groups = []
                        continue
                    if not e.loops:
                        continue
                    L = devar(e.loops[-1])
                    if e.cls == "Rym90":
                        # closure rotations come after the layer: everything opened before must be closed by now
                        for cls_o, L_o in open_groups:
                            if _maybe_nonempty(ev, bp.cond, L_o):
                                bad.append(f"closure rotations follow a possibly non-empty {cls_o} group without a barrier in between (path [{show(devar(bp.cond))[:100]}])")
                        open_groups = []
                        continue
                    n_groups += 1
                    open_groups.append((e.cls, L))
                for cls_o, L_o in open_groups:
                    if _maybe_nonempty(ev, bp.cond, L_o):
                        bad.append(f"a possibly non-empty {cls_o} group is not followed by a barrier (path [{show(devar(bp.cond))[:100]}])")
            rep.check(not bad and n_groups >= 4, "C10.T2", f"{name}[group delimiters]", f.loc, found="; ".join(sorted(set(bad))) or f"{n_groups} group occurrences, each closed by a barrier whenever it can be non-empty",
                      required="barrier after every non-empty activation / gate+park / phase-update group", what="a layer of the round is not delimited for some gate / park configuration: " + "; ".join(sorted(set(bad))), detail=f"groups:{name}")
    # initialize
    f = model.function(CC, "get_circuit_initialize")
    ev = Evaluator(model, inline_methods=False, opaque=opaque)
    ps = PathEnumerator(ev).function_paths(f)
    conn = sym(f.param_names[0])
    for p in [q for q in ps if q.exit == "return"]:
        es = emits(p, p.value)
        all_t = ("attr", conn, "qubit_indices")
        if not es or any(e.cls is None and (not e.loops or "localdef" in show(e.loops[-1])) for e in es):
            raise AnalysisError("get_circuit_initialize: what is added is produced by a generator / helper and not read as a sequence of operations")
        ok = len(es) == 3 and _is_barrier_all(es[0], all_t) and _is_barrier_all(es[2], all_t) and not es[0].loops and not es[2].loops and es[1].loops and "get_operations" in show(es[1].loops[-1]) \
            and all(not atoms_of(e.cond) for e in es)
        rep.check(ok, "C10.T2", "get_circuit_initialize", f.loc, found=[e.cls for e in es], required="Barrier(all), every preparation operation, Barrier(all)", what="state preparation is not wrapped in two unconditional barriers", detail="initialize")
    f = model.function(CC, "get_circuit_initialize_with_heralded")
    ev = Evaluator(model, inline_methods=False, opaque=opaque)
    ps = PathEnumerator(ev).function_paths(f)
    for p in [q for q in ps if q.exit == "return"]:
        es = emits(p, p.value)
        kinds = [(e.cls, show(e.loops[-1])[-60:] if e.loops else "") for e in es]
        if not es or any(e.cls is None and (not e.loops or "localdef" in show(e.loops[-1])) for e in es):
            raise AnalysisError("get_circuit_initialize_with_heralded: what is added is produced by a generator / helper and not read as a sequence of operations")
        ok = len(es) == 3 and es[0].cls == "Reset" and es[0].loops and "prepare_qubit_indices" in show(es[0].loops[-1]) and es[1].cls == "DispersiveMeasure" and es[1].loops and "measure_qubit_indices" in show(es[1].loops[-1]) \
            and es[1].field("acquisition_tag") == ("const", "heralded") and es[2].cls == "circuit_components.get_circuit_initialize" and all(not atoms_of(e.cond) for e in es)
        rep.check(ok, "C10.T2", "get_circuit_initialize_with_heralded", f.loc, found=kinds, required="Reset(every prepared qubit); heralded measurement(every measured qubit); wrapped preparation",
                  what="heralded initialisation does not reset every prepared qubit before measuring", detail="heralded")
    # calibration: read once per requested state (the pulse table is then a concrete sequence)
    g = model.function("state_calibration.circuit_components", "get_circuit_calibrate_with_heralded")
    state_name = g.param_names[1]
    bad: List[str] = []
    n_states = 0
    for k in (0, 1, 2):
        stv = ("enum", "StateKey", f"STATE_{k}")
        ev = Evaluator(model, inline_methods=False)
        try:
            ps = [q for q in PathEnumerator(ev).function_paths(g, args={state_name: stv}) if q.exit == "return"]
        except Unsupported as e:
            raise AnalysisError(f"get_circuit_calibrate_with_heralded: {e}")
        if len(ps) != 1:
            raise AnalysisError(f"get_circuit_calibrate_with_heralded: {len(ps)} return paths for STATE_{k} (expected one once the state is fixed)")
        n_states += 1
        p = ps[0]
        res = p.value
        rel = ("new", "RelationLink", (("_reference_node", ("call", ("attr", res, "get_last_entry"), (), ())), ("_relation_type", ("enum", "RelationType", "FOLLOWED_BY"))))
        seq = _linear(p.events, res)
        emitted = [(i, x) for i, kind, x in seq if kind == "emit"]
        taken = [i for i, kind, x in seq if kind == "relation" and _strip_lines(devar(x)) == _strip_lines(rel)]
        kinds = [x.cls for _, x in emitted]
        pulses = [(i, x) for i, x in emitted if x.cls in ("Rx180", "Rx180ef")]
        want = {0: [], 1: ["Rx180"], 2: ["Rx180", "Rx180ef"]}[k]
        her = [(i, x) for i, x in emitted if x.cls == "DispersiveMeasure" and x.field("acquisition_tag") == ("const", "heralded")]
        fin = [(i, x) for i, x in emitted if x.cls == "DispersiveMeasure" and x.field("acquisition_tag") == ("const", "final")]
        if kinds[:2] != ["Reset", "DispersiveMeasure"] or len(her) != 1 or her[0][0] != emitted[1][0]:
            bad.append(f"STATE_{k}: does not start with Reset and heralded measurement of every qubit")
            continue
        if [x.cls for _, x in pulses] != want:
            # an added operation whose class is not a name here (``cls(..)`` for a class taken from a table row, a helper that adds) is not read as "no pulse"
            unread_ = [x.cls for _, x in emitted if x.cls is None or model.maybe_cls(str(x.cls).split(".")[-1]) is None]
            helpers_ = [c_ for e_ in p.events if e_.kind == "effect" and e_.term is not None for c_ in subterms(e_.term, lambda y: y[0] == "call" and isinstance(y[1], tuple) and y[1][0] == "fn")
                        if any(_same(a_, res) for a_ in list(c_[2]) + [v_ for _, v_ in c_[3]])]
            if unread_ or helpers_:
                raise AnalysisError(f"get_circuit_calibrate_with_heralded[STATE_{k}]: operations are added through a table row or a helper ({(unread_ + [show(h_)[:60] for h_ in helpers_])[:2]}); the pulse sequence is not read")
            bad.append(f"STATE_{k}: pulses {[x.cls for _, x in pulses]} instead of {want}")
            continue
        if len(fin) != 1:
            bad.append(f"STATE_{k}: {len(fin)} final measurements")
            continue
        if pulses:
            r = pulses[0][1].field("relation")
            if r is None or _strip_lines(devar(r)) != _strip_lines(rel):
                bad.append(f"STATE_{k}: the first pulse does not carry the relation taken after the heralded measurements (it is placed right after the reset, in parallel with the readout)")
            elif not [t for t in taken if her[0][0] < t < pulses[0][0]]:
                bad.append(f"STATE_{k}: the relation of the first pulse is not taken between the heralded measurements and the pulses")
            if len(pulses) == 2 and pulses[1][1].field("relation") is not None:
                bad.append(f"STATE_{k}: the second pulse must follow the first implicitly")
        rf = fin[0][1].field("relation")
        after = pulses[-1][0] if pulses else her[0][0]
        if rf is None or _strip_lines(devar(rf)) != _strip_lines(rel) or not [t for t in taken if after < t < fin[0][0]]:
            bad.append(f"STATE_{k}: final measurements do not carry a relation taken after the last pulse")
    rep.check(not bad, "C10.T2", "get_circuit_calibrate_with_heralded", g.loc, found="; ".join(bad) or "reset, heralded, pulses after the readout, final after the pulses", required="each group starts FOLLOWED_BY the last operation of the preceding group",
              what="a calibration pulse or measurement can overlap the heralded readout on the same qubit: " + "; ".join(bad), detail="calibration")
    rep.floor("calibration states read", n_states, 3)


def _same(a, b) -> bool:
    from ..builder import _same_obj
    try:
        return _same_obj(a, b)
    except Exception:
        return a == b


def _linear(events, recv, start: int = 0, out=None):
    """events in execution order (loop bodies in place, first body path that emits): (index, 'emit' | 'relation', what)"""
    from ..builder import Emit, _same_obj
    out = [] if out is None else out
    for e in events:
        if e.kind == "loop":
            bodies = e.extra["paths"]
            pick = next((bp for bp in bodies if any(ev_.kind in ("effect", "loop", "assign") for ev_ in bp.events)), bodies[0] if bodies else None)
            if pick is not None:
                _linear(pick.events, recv, 0, out)
            continue
        if e.kind == "assign" and e.term is not None and (e.term[0] == "new" or (e.term[0] == "var" and e.term[3][0] == "new")) and "RelationLink" in show(e.term)[:40]:
            out.append((len(out), "relation", e.term))
        if e.kind == "effect" and e.term is not None:
            for c in find_calls(e.term, "add"):
                if isinstance(c[1], tuple) and c[1][0] == "attr" and _same_obj(c[1][1], recv):
                    arg = (list(c[2]) + [v for _, v in c[3]] + [None])[0]
                    if arg is not None:
                        out.append((len(out), "emit", Emit(arg, (), TRUE, e.node)))
    return out


def _truth_of(c: Term, L: Term, value: Term) -> Term:
    """``if L:`` on a list is ``if len(L) > 0``: replace L where it stands as a condition of its own"""
    from ..sym import t_and, t_not, t_or
    if c == L:
        return value
    if c[0] == "not":
        return t_not(_truth_of(c[1], L, value))
    if c[0] == "and":
        return t_and(*[_truth_of(x, L, value) for x in c[1]])
    if c[0] == "or":
        return t_or(*[_truth_of(x, L, value) for x in c[1]])
    return c


def _maybe_nonempty(ev: Evaluator, cond: Term, L: Term) -> bool:
    """Can the group over list L be non-empty on a path with condition cond?"""
    # lengths are integers: non-empty means len(L) = 1 + k with k >= 0; substitute and let the affine sign rules decide
    ln = ("call", "len", (L,), ())
    c = resolve_max(subst(_truth_of(devar(cond), devar(L), TRUE), {ln: t_add(ONE, K)}))
    if c == FALSE:
        return False
    try:
        return satisfiable(c, ev.enum_members)
    except Unsupported:
        return True
