"""E7 -- obligations, verdicts, evidence files, known findings, exit codes.

exit 0  every obligation discharged (listed known findings are printed as KNOWN-FINDING lines)
exit 1  at least one violation that /verif/known_findings.json does not list  (VIOLATION line)
exit 2  ANALYSIS-ERROR: the checker could not decide (anchor vanished, floor missed, unsupported code, crash)
"""
from __future__ import annotations

import json
import os
import time
from typing import Any, Dict, List, Optional

from .model import AnalysisError

VERIF_ROOT = os.path.dirname(os.path.dirname(os.path.abspath(__file__)))
EVIDENCE_DIR = os.path.join(VERIF_ROOT, "evidence")
REPLAY_DIR = os.path.join(EVIDENCE_DIR, "replay")
KNOWN_FINDINGS = os.path.join(VERIF_ROOT, "known_findings.json")


def load_known() -> List[Dict[str, str]]:
    if not os.path.exists(KNOWN_FINDINGS):
        return []
    with open(KNOWN_FINDINGS) as fh:
        data = json.load(fh)
    return list(data.get("known", []))


class Report:
    def __init__(self, prop_id: str, tier: str, src_root: str, quiet: bool = False, write: bool = True):
        self.prop_id = prop_id
        self.tier = tier
        self.src_root = src_root
        self.quiet = quiet
        self.write = write
        self.t0 = time.time()
        self.obligations: List[Dict[str, Any]] = []
        self.infos: List[str] = []
        self.floors: List[Dict[str, Any]] = []
        self.assumptions: List[str] = []
        self.trusted: List[str] = []
        self.analysed: Dict[str, Any] = {}
        self.rules_text: Dict[str, str] = {}
        self.undecided: List[str] = []

    # -- rule isolation --------------------------------------------------------------
    def isolated(self):
        """``with rep.isolated(): rule(model, rep)`` -- a rule that cannot read the code (AnalysisError) or crashes is recorded as undecided and the
        remaining rules still run.  A definite violation found by another rule is reported (exit 1); with no violation an undecided rule makes the
        whole check undecided (exit 2).  Obligations a rule recorded before giving up are kept."""
        rep = self

        class _Iso:
            def __enter__(self):
                return self

            def __exit__(self, et, ev, tb):
                if et is None:
                    return False
                if issubclass(et, AnalysisError):
                    rep.undecided.append(f"{et.__name__}: {ev}")
                    return True
                if issubclass(et, Exception):
                    import traceback
                    rep.undecided.append(f"checker crashed: {et.__name__}: {ev}\n" + "".join(traceback.format_tb(tb, limit=6)))
                    return True
                return False
        return _Iso()

    # -- rule bookkeeping ------------------------------------------------------------
    def rule(self, rule_id: str, text: str):
        self.rules_text[rule_id] = text

    def ok(self, rule: str, construct: str, loc: str, found: Any = None, required: Any = None, note: str = ""):
        self.obligations.append(dict(rule=rule, construct=construct, loc=loc, verdict="ok",
                                     found=_s(found), required=_s(required), note=note))

    def fail(self, rule: str, construct: str, loc: str, found: Any, required: Any, what: str, detail: str = ""):
        """Record a violated obligation.  ``detail`` is a short stable token distinguishing violations
        of the same rule in the same construct (part of the known-finding key)."""
        self.obligations.append(dict(rule=rule, construct=construct, loc=loc, verdict="violation",
                                     found=_s(found), required=_s(required), what=what, detail=detail))

    def check(self, cond: bool, rule: str, construct: str, loc: str, found: Any, required: Any, what: str,
              detail: str = "", note: str = ""):
        if cond:
            self.ok(rule, construct, loc, found, required, note)
        else:
            self.fail(rule, construct, loc, found, required, what, detail)
        return cond

    def info(self, text: str):
        self.infos.append(text)

    def floor(self, name: str, count: int, minimum: int):
        self.floors.append(dict(name=name, count=count, minimum=minimum))
        if count < minimum:
            raise AnalysisError(f"instance floor not reached: {name}: found {count}, confirmed by hand {minimum} "
                                f"(a rule matching fewer sites than confirmed would pass vacuously)")

    def assume(self, text: str):
        if text not in self.assumptions:
            self.assumptions.append(text)

    def trust(self, text: str):
        if text not in self.trusted:
            self.trusted.append(text)

    # -- finishing --------------------------------------------------------------------
    def violations(self) -> List[Dict[str, Any]]:
        return [o for o in self.obligations if o["verdict"] == "violation"]

    def finish(self) -> int:
        known = [k for k in load_known() if k.get("property") == self.prop_id]
        new, listed = [], []
        for v in self.violations():
            hit = None
            for k in known:
                if (k.get("rule") == v["rule"] and k.get("construct") == v["construct"]
                        and k.get("detail", "") == v.get("detail", "")):
                    hit = k
                    break
            if hit is not None:
                v["verdict"] = "known-finding"
                listed.append((v, hit))
            else:
                new.append(v)
        lines: List[str] = []
        for v, k in listed:
            lines.append(f"KNOWN-FINDING: property={self.prop_id} {v['rule']} {v['construct']} ({v['loc']}) "
                         f"-- {k.get('what', v.get('what', ''))}")
        # one report per distinct finding: a rule that judges a function path by path meets the same construct once per path
        uniq, seen_keys = [], set()
        for v in new:
            key = (v["rule"], v["construct"], repr(v.get("detail", "")), repr(v.get("found", "")), v["loc"])
            if key in seen_keys:
                v["duplicate_of_earlier_path"] = True
                continue
            seen_keys.add(key)
            uniq.append(v)
        new = uniq
        replay_paths = []
        if new and self.write:
            os.makedirs(REPLAY_DIR, exist_ok=True)
        for n, v in enumerate(new):
            path = os.path.join(REPLAY_DIR, f"{self.prop_id}-{v['rule']}-{n}.json")
            if self.write:
                with open(path, "w") as fh:
                    json.dump(dict(property=self.prop_id, tier=self.tier, src_root=self.src_root, instance=v,
                                   rule_text=self.rules_text.get(v["rule"], "")), fh, indent=1)
            replay_paths.append(path)
            lines.append(f"{v['loc']}: {v['rule']} [{v['construct']}] {v['what']}\n"
                         f"    found:    {v['found']}\n    required: {v['required']}")
            lines.append(f"VIOLATION property={self.prop_id} replay={path}")
        n_ob = len(self.obligations)
        n_ok = sum(1 for o in self.obligations if o["verdict"] == "ok")
        wall = time.time() - self.t0
        if self.write:
            self._write_evidence(n_ob, n_ok, len(new), len(listed), wall)
        if not self.quiet:
            for ln in lines:
                print(ln)
            print(f"[{self.prop_id}] tier={self.tier} obligations={n_ob} discharged={n_ok} "
                  f"violations={len(new)} known-findings={len(listed)} wall={wall:.2f}s src={self.src_root}")
        self.new_violations = new
        return 1 if new else 0

    def _write_evidence(self, n_ob, n_ok, n_new, n_known, wall):
        os.makedirs(EVIDENCE_DIR, exist_ok=True)
        rules = sorted({o["rule"] for o in self.obligations})
        per_rule = {r: dict(obligations=sum(1 for o in self.obligations if o["rule"] == r),
                            discharged=sum(1 for o in self.obligations if o["rule"] == r and o["verdict"] == "ok"),
                            text=self.rules_text.get(r, "")) for r in rules}
        distinct = len({(o["rule"], o["construct"], o["loc"]) for o in self.obligations})
        samples = []
        seen_rules = set()
        for o in self.obligations:
            if o["rule"] in seen_rules:
                continue
            seen_rules.add(o["rule"])
            samples.append({k: o[k] for k in ("rule", "construct", "loc", "verdict", "found", "required") if k in o})
        ev = dict(
            property_id=self.prop_id,
            tier=self.tier,
            seed=int(os.environ.get("VERIF_SEED", "0") or 0),
            level="other",
            coverage=dict(
                explanation=("static analysis: rule obligations over the parsed and resolved source of "
                             f"{self.src_root}/qce_circuit (no repository code imported or executed). Each obligation "
                             "is one (rule, construct) instance; 'found' is the normal form extracted from the code, "
                             "'required' the normal form the property demands."),
                obligations=n_ob,
                discharged=n_ok,
                evaluations=n_ob,
                distinct_nontrivial=distinct,
                rule="one evaluation = one rule instance at one construct (file:line); distinct = distinct "
                     "(rule, construct, location) triples; an instance is non-trivial because it was matched in the "
                     "current source (instance floors guard against vacuous rules)",
                samples=samples,
                exhaustive=True,
                rules=per_rule,
                floors=self.floors,
                analysed=self.analysed,
                known_findings=n_known,
                instances=self.obligations,
                info=self.infos,
                trusted_base=self.trusted,
                checker_cmd=f"/venv/bin/python -m qcolint check {self.prop_id} --tier {self.tier}",
            ),
            assumptions=self.assumptions,
            wall_s=round(wall, 3),
            violations=n_new,
        )
        path = os.path.join(EVIDENCE_DIR, f"{self.prop_id}.json")
        tmp = path + ".tmp"
        with open(tmp, "w") as fh:
            json.dump(ev, fh, indent=1, default=str)
        os.replace(tmp, path)


def _s(x: Any) -> Any:
    if x is None or isinstance(x, (int, float, bool, str)):
        return x
    if isinstance(x, (list, tuple)) and all(isinstance(i, (int, float, bool, str)) for i in x):
        return list(x)
    if isinstance(x, dict):
        return {str(k): _s(v) for k, v in x.items()}
    return str(x)
