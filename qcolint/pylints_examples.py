"""Positive and negative examples for the data-model lints.  The lints expect ZERO hits on the repository, so a lint that silently stopped matching
would pass forever: on every run each lint must fire on its positive example and stay silent on the negative twin (checked by ``self_check``).
The examples are parsed, never executed."""

EXAMPLES = {
    "PY1": dict(
        positive='''
def build(states, kernel):
    table = {}
    for state in states:
        table[state] = lambda q: kernel.get(state, q)
    return table
''',
        negative='''
def build(states, kernel):
    table = {}
    for state in states:
        table[state] = lambda q, state=state: kernel.get(state, q)
    best = [max(xs, key=lambda x: x.weight(state)) for state in states for xs in [kernel.rows(state)]]
    return table, best
'''),
    "PY2": dict(
        positive='''
def pick(xs):
    wanted = (x for x in xs if x.ok)
    if not any(wanted):
        return []
    return list(wanted)
''',
        negative='''
def pick(xs):
    wanted = (x for x in xs if x.ok)
    for i, x in enumerate(wanted):
        if x.done:
            return i
    it = iter(xs)
    first = next(it)
    return [first] + [y for y in it]
'''),
    "PY3": dict(
        positive='''
def plan(ops):
    segments = []
    current = []
    for op in ops:
        if op.is_block:
            segments.append(current)
            current.clear()
        else:
            current.append(op)
    return segments
''',
        negative='''
def plan(ops):
    segments = []
    current = []
    for op in ops:
        if op.is_block:
            segments.append(current)
            current = []
        else:
            current.append(op)
    return segments
'''),
    "PY4": dict(
        positive='''
def copies(template, times, seen=[]):
    seen.append(times)
    return [template.copy()] * (times - 1)
''',
        negative='''
def copies(template, times, seen=None):
    seen = [] if seen is None else seen
    return [template.copy() for _ in range(times - 1)] + [0] * 3
'''),
    "PY5": dict(
        positive='''
from typing import Optional
def select(tag: Optional[str], items):
    if tag:
        return [i for i in items if i.tag == tag]
    return list(items)
''',
        negative='''
from typing import Optional, Dict
def select(tag: Optional[str], items, lookup: Optional[Dict[str, int]] = None):
    if tag is not None:
        return [i for i in items if i.tag == tag]
    if not lookup:
        lookup = {}
    return list(items)
'''),
    "PY6": dict(
        positive='''
import numpy as np
class Op:
    @property
    def end_time(self) -> float:
        return 1.5
def latest(nodes):
    ends = np.fromiter((node.end_time for node in nodes), dtype=int, count=len(nodes))
    return nodes[int(np.argmax(ends))]
''',
        negative='''
import numpy as np
class Op:
    @property
    def end_time(self) -> float:
        return 1.5
def latest(nodes):
    ends = np.fromiter((node.end_time for node in nodes), dtype=float, count=len(nodes))
    counts = np.full(len(nodes), 0)
    counts[0] = len(nodes)
    return nodes[int(np.argmax(ends))], counts
'''),
    "PY7": dict(
        positive='''
from dataclasses import dataclass, field
from typing import List, Optional
@dataclass(frozen=True)
class Generator:
    edges: List[str]
    pointers: Optional[List[int]] = field(default=None)
    def __post_init__(self):
        if self.pointers is None:
            object.__setattr__(self, 'pointers', list(range(len(self.edges))))
''',
        negative='''
from dataclasses import dataclass, field
from typing import List
@dataclass(frozen=True)
class Generator:
    edges: List[str]
    _pointers: List[int] = field(init=False, default_factory=list)
    label: str = field(default='')
    def __post_init__(self):
        object.__setattr__(self, '_pointers', list(range(len(self.edges))))
        if not self.label:
            object.__setattr__(self, 'label', 'generator')
    @property
    def pointers(self) -> List[int]:
        return list(range(len(self.edges)))
'''),
    "PY8": dict(
        positive='''
from dataclasses import dataclass
@dataclass(frozen=True)
class Tag:
    tag: str = ''
    def __post_init__(self):
        object.__setattr__(self, 'tag', self.tag.strip().lower())
COUNTER = [0]
@dataclass(frozen=True)
class Identifier(Tag):
    index: int = 0
    def __post_init__(self):
        COUNTER[0] += 1
''',
        negative='''
from dataclasses import dataclass
@dataclass(frozen=True)
class Tag:
    tag: str = ''
    def __post_init__(self):
        object.__setattr__(self, 'tag', self.tag.strip().lower())
COUNTER = [0]
@dataclass(frozen=True)
class Identifier(Tag):
    index: int = 0
    def __post_init__(self):
        super().__post_init__()
        COUNTER[0] += 1
@dataclass(frozen=True)
class Other:
    index: int = 0
    def __post_init__(self):
        COUNTER[0] += 1
'''),
    "PY9": dict(
        positive='''
from itertools import groupby
def by_kind(operations):
    return {kind: list(group) for kind, group in groupby(operations, key=type)}
''',
        negative='''
from itertools import groupby
def by_kind(operations):
    ordered = sorted(operations, key=lambda o: type(o).__name__)
    return {kind: list(group) for kind, group in groupby(ordered, key=lambda o: type(o).__name__)}
def runs(operations):
    return [(kind, len(list(group))) for kind, group in groupby(operations, key=type)]
'''),
    "PY10": dict(
        positive='''
from dataclasses import dataclass
from functools import cached_property
from typing import List
@dataclass(frozen=True)
class Generator:
    edges: List[str]
    @cached_property
    def pointers(self) -> List[int]:
        return list(range(len(self.edges)))
''',
        negative='''
from dataclasses import dataclass
from functools import cached_property
from typing import List, Tuple
@dataclass(frozen=True)
class Generator:
    edges: Tuple[str, ...]
    name: str = ''
    @cached_property
    def pointers(self) -> List[int]:
        return list(range(len(self.edges)))
    @property
    def label(self) -> str:
        return self.name.upper()
'''),
    "PY11": dict(
        positive='''
from dataclasses import dataclass, field
from typing import Dict, List
@dataclass
class Manager:
    lookup: Dict[str, int] = field(default_factory=dict)
    additives: List[int] = field(default_factory=list)
class DefaultManager(Manager):
    lookup = {'M': 1}
    additives = [2]
''',
        negative='''
from dataclasses import dataclass, field
from typing import Dict, List
@dataclass
class Manager:
    lookup: Dict[str, int] = field(default_factory=dict)
    additives: List[int] = field(default_factory=list)
@dataclass
class DefaultManager(Manager):
    lookup: Dict[str, int] = field(default_factory=lambda: {'M': 1})
    KIND = 'default'
class Holder:
    _manager = Manager(lookup={'M': 1}, additives=[2])
'''),
}
