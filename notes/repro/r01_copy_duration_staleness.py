import warnings
warnings.simplefilter('ignore')
from qce_circuit.language.declarative_circuit import DeclarativeCircuit
from qce_circuit.structure.circuit_operations import *
from qce_circuit.structure.intrf_circuit_operation import RelationLink, RelationType, QubitChannel
from qce_circuit.structure.registry_duration import *
from qce_circuit.structure.registry_repetition import *

def sched(c):
    return [(type(o).__name__, [ (ci.id, ci.channel.name) for ci in o.channel_identifiers], o.start_time, o.duration) for o in c.operations]

# C05: VirtualTwoQubitVacant copy
v = VirtualTwoQubitVacant(0,1, duration_strategy=FixedDurationStrategy(3.0), qubit_channel=QubitChannel.FLUX)
vc = v.copy()
print("V2QV orig", v.duration, v.qubit_channel, "copy", vc.duration, vc.qubit_channel)

# C04 duration: long op with shorter JOINED_START successor
c = DeclarativeCircuit()
a = c.add(Wait(0, duration_strategy=FixedDurationStrategy(10.0)))
b = c.add(Wait(1, duration_strategy=FixedDurationStrategy(1.0), relation=RelationLink(a, RelationType.JOINED_START)))
print("C04 duration", c.duration, "expected 10", sched(c))

# C03 stale cache
reg = DurationRegistry()
s = RegistryDurationStrategy(reg, 'k')
c = DeclarativeCircuit()
a = c.add(Wait(0, duration_strategy=s))
b = c.add(Wait(0, duration_strategy=FixedDurationStrategy(1.0)))
print("before", b.start_time)
reg.set_registry_at('k', 5.0)
print("after set (expect 5)", b.start_time)

# C01 JOINED_END on sub-circuit
c = DeclarativeCircuit()
a = c.add(Wait(0, duration_strategy=FixedDurationStrategy(10.0)))
sub = DeclarativeCircuit(relation=RelationLink(a, RelationType.JOINED_END))
sub.add(Wait(1, duration_strategy=FixedDurationStrategy(1.0)))
sub.add(Wait(1, duration_strategy=FixedDurationStrategy(2.0)))
added = c.add(sub)
print("C01 nested JOINED_END: sub start", added.start_time, "dur", added.duration, sched(c))
