import warnings
warnings.simplefilter('ignore')
from qce_circuit.connectivity.connectivity_surface_code import *
from qce_circuit.library.repetition_code.repetition_code_connectivity import *
S = Surface17Layer()
rank = {FrequencyGroup.LOW:0, FrequencyGroup.MID:1, FrequencyGroup.HIGH:2}
fr = lambda q: rank[S.get_frequency_group_identifier(q).id]
nbrs = lambda q: S.get_neighbors(q)
def spec_requires_parking(q, edges):
    if any(e.contains(q) for e in edges): return False
    for e in edges:
        a,b = e.qubit_ids
        hi, lo = (a,b) if fr(a)>fr(b) else (b,a)
        if q in nbrs(hi) and fr(q)==fr(lo): return True
    return False
print("edges differ in freq:", all(fr(e.qubit_ids[0])!=fr(e.qubit_ids[1]) for e in S.edge_ids), [abs(fr(e.qubit_ids[0])-fr(e.qubit_ids[1])) for e in S.edge_ids])
for L in [Repetition9Code(), Repetition9Round6Code(), Repetition5Round4Code()]:
    print(type(L).__name__)
    seen = []
    for i in range(L.gate_sequence_count):
        g = L.get_gate_sequence_at_index(i)
        edges = g.edge_ids
        parks = [p.identifier for p in g.park_operations]
        gq = [q for e in edges for q in e.qubit_ids]
        req_code = [q for q in S.qubit_ids if get_requires_parking(q, edges, L)]
        req_spec = [q for q in S.qubit_ids if spec_requires_parking(q, edges)]
        print(i, "edges real:", all(e in S.edge_ids for e in edges), "distinct:", len(set(gq))==len(gq), "park∩gate:", [p for p in parks if p in gq],
              "missing(code):", [q for q in req_code if q not in parks], "missing(spec):", [q for q in req_spec if q not in parks], "extra parks:", [p for p in parks if p not in req_spec], "code==spec", set(req_code)==set(req_spec))
        seen += edges
    pg = L.parity_group_x + L.parity_group_z
    pe = [e for g in pg for e in g.edge_ids]
    print(" parity edges", len(pe), "seq edges", len(seen), "each once:", all(seen.count(e)==1 for e in pe), "extra gates:", [e for e in seen if e not in pe])
