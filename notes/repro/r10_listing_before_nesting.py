"""C03.H2 / C03.H4 triage repro (not part of any check): reading `operations` before nesting changes the result."""
import warnings; warnings.simplefilter('ignore')
from qce_circuit.language.declarative_circuit import DeclarativeCircuit
from qce_circuit.structure.circuit_operations import Wait, DispersiveMeasure, Rx180
from qce_circuit.structure.registry_duration import FixedDurationStrategy as F

def build(observe_first: bool):
    inner = DeclarativeCircuit()
    inner.add(DispersiveMeasure(0, acquisition_strategy=inner.get_acquisition_strategy()))
    mid = DeclarativeCircuit()
    mid.add(Rx180(0))
    mid.add(inner)
    mid.add(DispersiveMeasure(0, acquisition_strategy=mid.get_acquisition_strategy()))
    if observe_first:
        _ = mid.operations          # a pure observation
    top = DeclarativeCircuit()
    top.add(Rx180(1))
    top.add(mid)
    return [int(i) for i in top.get_acquisition_indices(0)], [round(o.start_time, 2) for o in top.operations]

print("not observed :", build(False))
print("observed     :", build(True))
