import warnings
warnings.simplefilter('ignore')
import stim, numpy as np
from qce_circuit.language.declarative_circuit import DeclarativeCircuit
from qce_circuit.language.intrf_declarative_circuit import InitialStateContainer, InitialStateEnum
from qce_circuit.structure.circuit_operations import *
from qce_circuit.structure.intrf_circuit_operation import RelationLink, RelationType, QubitChannel
from qce_circuit.structure.registry_duration import *
from qce_circuit.structure.registry_repetition import *
from qce_circuit.addon_stim import to_stim, apply_noise, NoiseSettings
from qce_circuit.library.repetition_code.circuit_constructors import *
from qce_circuit.library.repetition_code.circuit_components import *

# C14: name of measurement
c = stim.Circuit("H 0\nTICK\nM 0\nTICK\nCZ 0 1\nTICK")
n = apply_noise(c, {}, noise_settings=NoiseSettings())
print(n)
for ins in n: 
    pass
print([i.name for i in stim.Circuit("MZ(0.01) 0")])

# C09: ancilla initial state
st = InitialStateContainer.from_ordered_list([InitialStateEnum.ZERO, InitialStateEnum.ONE, InitialStateEnum.ZERO],[InitialStateEnum.ONE, InitialStateEnum.ZERO])
circ = construct_repetition_code_circuit(qec_cycles=2, initial_state=st)
s = to_stim(circ)
print(s)
try:
    sampler = s.compile_detector_sampler()
    print("detectors", s.num_detectors, sampler.sample(5))
except Exception as e:
    print("ERR", e)
