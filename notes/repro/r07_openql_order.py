import warnings
warnings.simplefilter('ignore')
from qce_circuit.language.declarative_circuit import DeclarativeCircuit
from qce_circuit.structure.circuit_operations import *
from qce_circuit.structure.registry_repetition import *
from qce_circuit.addon_openql import to_openql
import openql as ql
sub = DeclarativeCircuit(repetition_strategy=FixedRepetitionStrategy(1)); sub.add(Ry90(0))
c = DeclarativeCircuit(); c.add(Rx180(0)); c.add(sub); c.add(Rx90(0))
p = to_openql(c)
print(p.name)
p.compile()
import glob,os
from qce_circuit.addon_openql.platform_manager import PlatformManager
d = PlatformManager.openql_output_directory()
for f in sorted(glob.glob(str(d)+'/*')): print(f)
print(open(str(d)+'/'+p.name+'.qasm').read() if os.path.exists(str(d)+'/'+p.name+'.qasm') else 'noqasm')
