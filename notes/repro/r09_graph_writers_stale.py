"""C03.H1 (graph writers): triage repro, not part of any check.  Run: /venv/bin/python notes/repro/r09_graph_writers_stale.py"""
import warnings; warnings.simplefilter('ignore')
from qce_circuit.language.declarative_circuit import DeclarativeCircuit
from qce_circuit.structure.circuit_operations import Wait
from qce_circuit.structure.intrf_circuit_operation import RelationLink, RelationType
from qce_circuit.structure.intrf_circuit_operation_composite import CircuitCompositeOperation
from qce_circuit.structure.registry_duration import FixedDurationStrategy as F

def fresh():
    RelationLink.get_start_time.cache_clear()
    from qce_circuit.structure.intrf_circuit_operation import MultiRelationLink
    MultiRelationLink.get_start_time.cache_clear()

# (a) CircuitCompositeOperation.add on a referenced sub-circuit
c = DeclarativeCircuit(); sub = DeclarativeCircuit(); sub.add(Wait(0, duration_strategy=F(5.0)))
added = c.add(sub)
f = c.add(Wait(1, duration_strategy=F(1.0), relation=RelationLink(added, RelationType.FOLLOWED_BY)))
before = f.start_time
added.add(Wait(0, duration_strategy=F(3.0)))
stale = f.start_time
fresh(); true = f.start_time
print("add:     before", before, "after-add (reported)", stale, "fresh evaluation", true)

# (b) apply_flatten_to_self on a referenced block (structure-level API)
outer = CircuitCompositeOperation()
X = CircuitCompositeOperation()
S = CircuitCompositeOperation(); S.add(Wait(0, duration_strategy=F(5.0)))
X.add(S)
X.add(Wait(1, duration_strategy=F(1.0), relation=RelationLink(S, RelationType.FOLLOWED_BY)))
outer.add(X)
Fo = Wait(2, duration_strategy=F(1.0), relation=RelationLink(X, RelationType.FOLLOWED_BY)); outer.add(Fo)
before = Fo.start_time
X.apply_flatten_to_self()
stale = Fo.start_time
fresh(); true = Fo.start_time
print("flatten: before", before, "after-flatten (reported)", stale, "fresh evaluation", true)
