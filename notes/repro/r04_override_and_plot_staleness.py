import warnings
warnings.simplefilter('ignore')
from qce_circuit.language.declarative_circuit import DeclarativeCircuit
from qce_circuit.structure.circuit_operations import *
from qce_circuit.structure.intrf_circuit_operation import RelationLink, RelationType, QubitChannel, MultiRelationLink
from qce_circuit.structure.registry_duration import *
from qce_circuit.structure.registry_repetition import *
from qce_circuit.visualization.visualize_circuit.display_circuit import plot_circuit
import matplotlib
matplotlib.use('Agg')
F=FixedDurationStrategy
OV={GlobalRegistryKey.MICROWAVE: 5.0, GlobalRegistryKey.READOUT: 2.0, GlobalRegistryKey.FLUX:1.0, GlobalRegistryKey.RESET:1.0}
c = DeclarativeCircuit(); c.add(Rx180(0)); b=c.add(CPhase(0,1)); 
print("before", b.start_time)
with temporary_override_get_registry_at(OV):
    print("inside override (expect 5):", b.start_time, "dur", b.duration)
print("after", b.start_time)

RelationLink.get_start_time.cache_clear(); MultiRelationLink.get_start_time.cache_clear()
with temporary_override_get_registry_at(OV):
    sub = DeclarativeCircuit(repetition_strategy=FixedRepetitionStrategy(3)); sub.add(CPhase(0,1)); sub.add(Rx180(0))
    c = DeclarativeCircuit(); c.add(sub); c = c.apply_modifiers()
    plot_circuit(c)
    print("after plot (expect 0,1,6,7,12,13):", [o.start_time for o in c.operations], c.duration)
    RelationLink.get_start_time.cache_clear(); MultiRelationLink.get_start_time.cache_clear()
    print("fresh:", [o.start_time for o in c.operations], c.duration)
