import warnings
warnings.simplefilter('ignore')
from qce_circuit.language.declarative_circuit import DeclarativeCircuit
from qce_circuit.structure.circuit_operations import *
from qce_circuit.structure.intrf_circuit_operation import RelationLink, RelationType, QubitChannel
from qce_circuit.structure.registry_duration import *
F=FixedDurationStrategy
def build():
    sub = DeclarativeCircuit(); sub.add(Barrier([0])); sub.add(Wait(0, duration_strategy=F(1.0)))
    c = DeclarativeCircuit(); c.add(Wait(0, duration_strategy=F(5.0))); c.add(sub)
    return c
c1 = build()
print("listing first :", [(type(o).__name__, o.start_time) for o in c1.operations], c1.duration)
c2 = build()
d = c2.duration
print("duration first:", d, [(type(o).__name__, o.start_time) for o in c2.operations], c2.duration)
