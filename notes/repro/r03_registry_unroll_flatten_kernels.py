import warnings
warnings.simplefilter('ignore')
import stim, numpy as np
from qce_circuit.language.declarative_circuit import DeclarativeCircuit
from qce_circuit.language.intrf_declarative_circuit import InitialStateContainer, InitialStateEnum
from qce_circuit.structure.circuit_operations import *
from qce_circuit.structure.intrf_circuit_operation import RelationLink, RelationType, QubitChannel
from qce_circuit.structure.intrf_acquisition_operation import AcquisitionTag
from qce_circuit.structure.registry_duration import *
from qce_circuit.structure.registry_repetition import *
from qce_circuit.addon_stim import to_stim
from qce_circuit.library.repetition_code.circuit_constructors import *
from qce_circuit.library.repetition_code.circuit_components import *
from qce_circuit.library.repetition_code.repetition_code_connectivity import *
from qce_circuit.connectivity import QubitIDObj
from qce_circuit.structure.acquisition_indexing.kernel_repetition_code import RepetitionExperimentKernel
from qce_circuit.structure.acquisition_indexing.intrf_stabilizer_index_kernel import StateKey

# C07 registry after apply_modifiers
c = DeclarativeCircuit()
c.add(DispersiveMeasure(0, acquisition_strategy=c.get_acquisition_strategy()))
c2 = c.apply_modifiers()
m = c2.add(DispersiveMeasure(0, acquisition_strategy=c2.get_acquisition_strategy()))
print("C07 index after apply_modifiers (expect 1):", m.acquisition_index)

# C08/C11 library circuits before/after
for cyc in [0,1,2,3,4,5]:
    st = InitialStateContainer.from_ordered_list([InitialStateEnum.ZERO, InitialStateEnum.ONE, InitialStateEnum.ZERO])
    circ = construct_repetition_code_circuit(qec_cycles=cyc, initial_state=st)
    s0 = to_stim(circ).flattened()
    circ2 = circ.apply_modifiers()
    s1 = to_stim(circ2).flattened()
    circ3 = circ2.flatten()
    s2 = to_stim(circ3).flattened()
    print(cyc, "unroll same:", str(s0)==str(s1), "flatten same:", str(s1)==str(s2), s0.num_measurements, s1.num_measurements, s2.num_measurements, s0.num_detectors)

# C13
desc = RepetitionCodeDescription.from_connectivity(involved_qubit_ids=[QubitIDObj('D7'),QubitIDObj('Z3'),QubitIDObj('D4'),QubitIDObj('Z1'),QubitIDObj('D5')], connectivity=Repetition9Code())
rounds=[0,3,1,2]
mc = construct_repetition_code_multi_round_circuit(qec_cycles=rounds, description=desc, initial_state=InitialStateContainer.from_ordered_list([InitialStateEnum.ZERO]*3))
k = RepetitionExperimentKernel(rounds=rounds, heralded_initialization=True, qutrit_calibration_points=True, involved_data_qubit_ids=desc.data_qubit_ids, involved_ancilla_qubit_ids=desc.ancilla_qubit_ids, experiment_repetitions=1)
anc = desc.ancilla_qubit_ids[0]; ai = desc.get_index(anc)
print("cycle len", k.kernel_cycle_length, "circuit acq for ancilla", len(mc.get_acquisition_indices(ai)))
print("heralded circ", mc.get_acquisition_indices(AcquisitionTag(ai,'heralded')))
print("heralded kern", [k.get_heralded_cycle_acquisition_indices(anc, r) for r in rounds], [k.get_heralded_calibration_acquisition_indices(anc, s) for s in StateKey])
print("parity circ", mc.get_acquisition_indices(AcquisitionTag(ai,'parity')), "final circ", mc.get_acquisition_indices(AcquisitionTag(ai,'final')))
print("stab kern", [k.get_stabilizer_and_projected_cycle_acquisition_indices(anc, r) for r in rounds], [k.get_projected_calibration_acquisition_indices(anc, s) for s in StateKey])
