import warnings
warnings.simplefilter('ignore')
from qce_circuit.language.declarative_circuit import DeclarativeCircuit
from qce_circuit.structure.circuit_operations import *
from qce_circuit.structure.intrf_circuit_operation import RelationLink, RelationType, QubitChannel, MultiRelationLink
from qce_circuit.structure.registry_duration import *
from qce_circuit.structure.registry_repetition import *
F=FixedDurationStrategy
def sched(ops): return [(type(o).__name__, o.channel_identifiers[0].id, o.start_time, o.duration) for o in ops]
# K4: value-equality collision
subA = DeclarativeCircuit(); subA.add(Wait(0, duration_strategy=F(5.0)))
subB = DeclarativeCircuit(); subB.add(Wait(1, duration_strategy=F(1.0)))
block = DeclarativeCircuit(repetition_strategy=FixedRepetitionStrategy(3)); block.add(subA); block.add(subB)
c = DeclarativeCircuit(); c.add(block)
c = c.apply_modifiers()
print("orig ", sched(c.operations))
cp = c.circuit_structure.copy()
print("copy ", sched(cp.decomposed_operations()))

# K1b: Barrier copy drops relation
c = DeclarativeCircuit()
P = c.add(Wait(0, duration_strategy=F(1.0)))
P2 = c.add(Wait(0, duration_strategy=F(5.0)))
B = c.add(Barrier([0,1]))
Q = c.add(Wait(1, duration_strategy=F(1.0), relation=RelationLink(P, RelationType.JOINED_START)))
print("orig ", sched(c.operations))
cp = c.circuit_structure.copy()
print("copy ", sched(cp.decomposed_operations()))
