import itertools, sys, time
from qce_circuit.connectivity.connectivity_surface_code import Surface17Layer, get_requires_parking, on_moving_side
from qce_circuit.connectivity.mapping.gate_sequence_generator import GateSequenceGenerator, OperationConstraint
from qce_circuit.connectivity.intrf_connectivity_gate_sequence import Operation
L = Surface17Layer()
edges = L.edge_ids
qs = L.qubit_ids
print(len(edges), len(qs))
grp = {q: L.get_frequency_group_identifier(q) for q in qs}
def lvl(g):
    for i,name in enumerate(['LOW','MID','HIGH']):
        if name in str(g).upper(): return i
    raise
print({q.id: str(grp[q]) for q in qs})
lv = {q: lvl(grp[q]) for q in qs}
nb = {q: set(L.get_neighbors(q, order=1)) for q in qs}
def spec(S):
    used=[q for e in S for q in e.qubit_ids]
    if len(set(used))!=len(used): return False
    for a,b in itertools.combinations(S,2):
        la=min(lv[q] for q in a.qubit_ids); lb=min(lv[q] for q in b.qubit_ids)
        for qa in a.qubit_ids:
            for qb in b.qubit_ids:
                if qb in nb[qa] and la==lb: return False
    return True
t=time.time(); bad=0; n=0; acc=0
K=int(sys.argv[1])
for k in range(1,K+1):
    for S in itertools.combinations(edges,k):
        ops=[Operation.type_gate(e) for e in S]
        got=bool(GateSequenceGenerator.get_mutually_allowed(ops,L))
        exp=spec(S); n+=1; acc+=got
        if got!=exp:
            bad+=1
            if bad<10: print('MISMATCH',[e.name if hasattr(e,'name') else str(e) for e in S],got,exp)
print(n,'subsets',acc,'accepted',bad,'mismatches',time.time()-t)
bad=0;n=0
for k in range(1,K+1):
    for S in itertools.combinations(edges,k):
        inv={q for e in S for q in e.qubit_ids}
        if len(inv)!=2*len(S): continue
        for q in qs:
            if q in inv: continue
            got=bool(get_requires_parking(q,list(S),L))
            exp=False
            for g in S:
                hi=max(g.qubit_ids,key=lambda x:lv[x]); lo=min(lv[x] for x in g.qubit_ids)
                if hi in nb[q] and lv[q]==lo: exp=True
            n+=1
            if got!=exp:
                bad+=1
                if bad<10: print('PARK MISMATCH',q.id,[str(e) for e in S],got,exp)
print('park',n,bad)
